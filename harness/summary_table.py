#!/usr/bin/env python3
"""Markdown table 'as built' per property from evidence/*.json, coq/Cnn/Properties_Cnn.v and mutants/."""
import glob, json, os, re
V = os.path.dirname(os.path.dirname(os.path.abspath(__file__)))
print("| id | theorems (refuted / partial) | Coq lines | tie: evaluations (distinct non-trivial), quick wall | mutants | open findings / fixed |")
print("|---|---|---|---|---|---|")
for l in open(os.path.join(V, "properties.jsonl")):
    pid = json.loads(l)["id"]
    th = []
    for pf in [os.path.join(V, "coq", pid, "Properties_%s.v" % pid)] + sorted(glob.glob(os.path.join(V, "coq", pid, "Properties_%s_*.v" % pid))):
        if os.path.exists(pf):
            th += re.findall(r"^\s*(?:Theorem|Corollary)\s+([A-Za-z0-9_']+)", open(pf).read(), re.M)
    ref = [t for t in th if "refuted" in t]; par = [t for t in th if "partial" in t]
    lines = sum(len(open(f).read().split("\n")) for f in glob.glob(os.path.join(V, "coq", pid, "*.v")))
    ev = {}
    ef = os.path.join(V, "evidence", pid + ".json")
    if os.path.exists(ef):
        ev = json.load(open(ef))
    cov = ev.get("coverage", {})
    muts = len(glob.glob(os.path.join(V, "mutants", pid + "-*.patch")))
    kf = os.path.join(V, "known_findings", pid + ".json")
    nf = nx = 0
    if os.path.exists(kf):
        d = json.load(open(kf)); nf = len(d.get("findings", [])); nx = len(d.get("fixed", []))
    print("| %s | %d (%d / %d) | %d | %s (%s), %s s | %d | %d / %d |" % (
        pid, len(th), len(ref), len(par), lines, cov.get("evaluations", "-"), cov.get("distinct_nontrivial", "-"),
        ev.get("wall_s", "-"), muts, nf, nx))
