#!/usr/bin/env python3
"""Validates checks against breaking changes without touching /repo:
   run_mutants.py [Cnn ...] [--seeded]  - for every mutants/Cnn-*.patch (and seeded/*/patch.diff with --seeded) make a scratch copy of
   /repo, apply the patch, run `CB_REPO=<copy> ./check Cnn` with evidence/replays redirected, and print a table."""
import glob
import json
import os
import shutil
import subprocess
import sys
import tempfile

V = os.path.dirname(os.path.dirname(os.path.abspath(__file__)))


def run_one(prop, patch, label):
    d = tempfile.mkdtemp(prefix="cbverif-mut-", dir="/var/tmp")
    try:
        repo = os.path.join(d, "repo")
        subprocess.run(["rsync", "-a", "--exclude", ".git", "--exclude", "*.o", "--exclude", "/main", "--exclude", "/tests",
                        "/repo/", repo + "/"], check=True)
        r = subprocess.run(["patch", "-p1", "-s", "-d", repo, "-i", patch], capture_output=True, text=True)
        if r.returncode != 0:
            return label, prop, "PATCH-FAILED", r.stdout[-200:] + r.stderr[-200:]
        env = dict(os.environ, CB_REPO=repo, CB_EVID_DIR=os.path.join(d, "evidence"), CB_REPLAY_DIR=os.path.join(d, "replays"))
        try:
            r = subprocess.run(["./check", prop, "--tier", "quick"], cwd=V, env=env, capture_output=True, text=True, timeout=1500)
        except subprocess.TimeoutExpired:
            return label, prop, "TIMEOUT", ""
        viol = [l for l in r.stdout.split("\n") if l.startswith("VIOLATION")]
        first = viol[0][:230] if viol else ""
        concrete = any(not l.rstrip().endswith("no-failing-input-found") for l in viol)
        return label, prop, ("CAUGHT" + ("" if concrete else " (no-failing-input-found)")) if r.returncode == 1 and viol else "MISSED (rc=%d)" % r.returncode, first
    finally:
        shutil.rmtree(d, ignore_errors=True)


def main():
    args = [a for a in sys.argv[1:] if not a.startswith("--")]
    jobs = []
    for p in sorted(glob.glob(os.path.join(V, "mutants", "C*-*.patch"))):
        prop = os.path.basename(p)[:3]
        if args and prop not in args:
            continue
        jobs.append((prop, p, os.path.basename(p)[:-6]))
    if "--seeded" in sys.argv:
        for m in sorted(glob.glob(os.path.join(V, "seeded", "*", "meta.json"))):
            meta = json.load(open(m))
            prop = meta["property"]
            if args and prop not in args:
                continue
            jobs.append((prop, os.path.join(os.path.dirname(m), "patch.diff"), "seeded/" + os.path.basename(os.path.dirname(m))))
    if "--only-missing" in sys.argv:
        # skip what mutants/RESULTS.txt already records as CAUGHT (the file is appended to with --record)
        done = set()
        rf = os.path.join(V, "mutants", "RESULTS.txt")
        if os.path.exists(rf):
            for l in open(rf):
                parts = l.split()
                if len(parts) >= 3 and parts[2] == "CAUGHT":
                    done.add(parts[0])
        jobs = [j for j in jobs if j[2] not in done]
    nj = 1
    for a in sys.argv[1:]:
        if a.startswith("--jobs="):
            nj = int(a.split("=")[1])
    # one property at a time per worker: runs of the same property share coq/Cnn/Gen_*.v and must not overlap
    byprop = {}
    for j in jobs:
        byprop.setdefault(j[0], []).append(j)
    import threading
    lock = threading.Lock()
    out = open(os.path.join(V, "mutants", "RESULTS.txt"), "a") if "--record" in sys.argv else None
    props = sorted(byprop)

    def worker():
        while True:
            with lock:
                if not props:
                    return
                pr = props.pop(0)
            for prop, p, label in byprop[pr]:
                res = run_one(prop, p, label)
                line = "%-45s %-4s %-32s %s" % res
                with lock:
                    print(line, flush=True)
                    if out:
                        out.write(line + "\n")
                        out.flush()
    ths = [threading.Thread(target=worker) for _ in range(nj)]
    [t.start() for t in ths]
    [t.join() for t in ths]


if __name__ == "__main__":
    main()
