"""Generator of CbCore programs (S-expressions, grammar in ocaml/lang_driver.ml) aimed at property C08:
call graphs with self / mutual recursion, every argument count between required and declared,
interleaved calls to functions owning statics, callers' locals printed before and after calls.

Two families, selected by `Opts`:

* lexical (default): the side condition of coq/C08 `dynamic_lookup_refines_lexical` holds - local and
  parameter names are shared by ALL functions (every activation reuses its callers' names for its own
  variables) but are disjoint from the global and the static names, no argument mentions an earlier
  parameter name of the callee or a static, static initialisers are literals. Ref, Mech and the
  implementation must agree.
* reuse (`Opts(reuse=True)`): the names are deliberately confused - locals named like globals, callee
  bodies reading/writing names they do not declare (their callers' locals), later arguments mentioning
  earlier parameters, statics named like globals, statics as arguments, static initialisers with
  effects. Here the implementation is known to deviate from Ref (known_findings/C08.json); the Mech
  model (coq/C08/Frames.v) must predict the implementation exactly.

println arguments never contain calls (finding C01-println-retry) and all variables are `long`.
All randomness comes from the rng passed in.
"""

LOCALS = [1, 2, 3, 4, 5, 6, 7, 8]          # v1..v8: parameter / local names, shared by all functions
GLOBALS = [50, 51, 52, 53]                 # v50..: global names
STATICS = [70, 71, 72]                     # v70..: static names (the same names in different functions)


class Opts:
    def __init__(self, **kw):
        self.reuse = False            # name-confusion family (Mech vs main)
        self.max_funcs = 4
        self.max_depth = 50           # recursion depth reached from main
        self.arity_errors = 0.04      # probability that main ends with a deliberately wrong argument count
        self.__dict__.update(kw)


class Fn:
    def __init__(self, fid, params, ndef, defaults, statics, void):
        self.fid, self.params, self.ndef, self.defaults, self.statics, self.void = fid, params, ndef, defaults, statics, void


class Gen:
    def __init__(self, rng, opts=None):
        self.r = rng
        self.o = opts or Opts()
        self.feats = set()
        self.fns = []
        self.globals = []
        self.branching = 1

    # ------------------------------------------------------------ expressions
    def lit(self):
        return str(self.r.choice([0, 1, 2, 3, 4, 5, 7, 10, 11, 100, -1, -2, -3]))

    def pure(self, names, d=2):
        """call-free expression over `names`"""
        r = self.r
        names = list(names)
        if d <= 0 or r.random() < 0.3 or not names:
            if names and r.random() < 0.75:
                return "(v %d)" % r.choice(names)
            return self.lit()
        k = r.random()
        if k < 0.55:
            return "(bin %s %s %s)" % (r.choice(["+", "-", "+"]), self.pure(names, d - 1), self.pure(names, d - 1))
        if k < 0.7:
            return "(bin * %s %s)" % (self.pure(names, d - 1), r.choice(["2", "3", "10", "-1"]))
        if k < 0.85:
            return "(bin %% %s %s)" % (self.pure(names, d - 1), r.choice(["7", "100", "1000"]))
        return "(bin %s %s %s)" % (r.choice(["<", "<=", ">", ">=", "==", "!="]), self.pure(names, d - 1), self.pure(names, d - 1))

    def call(self, env, dname, off=1, forbid=frozenset(), nest=1, target=None, bad_arity=False):
        """a call whose first argument is the remaining depth (`dname` - off, or a literal in main);
        `forbid` = names the arguments must not mention (lexical family)"""
        r = self.r
        fn = target or r.choice(self.fns)
        np_ = len(fn.params)
        lo = np_ - fn.ndef
        n = r.randint(max(lo, 1), np_)
        if bad_arity:
            n = r.choice([lo - 1, np_ + 1]) if lo - 1 >= 1 else np_ + 1
            self.feats.add("arity-error")
        else:
            self.feats.add("argc=%d/req=%d/decl=%d" % (n, lo, np_))
        depth_expr = "(bin - (v %d) %d)" % (dname, off) if dname is not None else str(max(0, self.main_depth() - off + 1))
        args = []
        fb = set(forbid)
        bound = set(forbid)           # callee parameters already bound (both families): the depth variable must not be one of them
        for j in range(n):
            if j == 0:
                a = depth_expr
            else:
                names = [x for x in env["args_ok"] if x not in fb] if not self.o.reuse else list(env["vis"])
                can_nest = nest > 0 and self.branching > 1 and (dname is None or dname not in bound)
                if can_nest and r.random() < 0.2:
                    a = self.call(env, dname, off + 1, frozenset(bound if self.o.reuse else fb), nest - 1)
                    self.feats.add("nested-call-arg")
                else:
                    a = self.pure(names, 1)
            args.append(a)
            if j < np_:
                bound.add(fn.params[j])
                if not self.o.reuse:
                    fb.add(fn.params[j])
        return "(call %d %s)" % (fn.fid, " ".join(args))

    # ------------------------------------------------------------ function bodies
    def body(self, fn, env, nstmt, depth, calls_left):
        r = self.r
        out = []
        env = dict(env, vis=list(env["vis"]), args_ok=list(env["args_ok"]), mine=list(env["mine"]))
        d = "(v %d)" % fn.params[0] if fn is not None else None
        for _ in range(nstmt):
            k = r.random()
            free = [x for x in env["pool"] if x not in env["declared"]]
            if k < 0.22 and free:
                x = r.choice(free)
                env["declared"].add(x)
                init = self.pure(env["vis"], 2)
                out.append("(decl 0 0 long %d %s)" % (x, init))
                for l in ("vis", "args_ok", "mine"):
                    if x not in env[l]:
                        env[l].append(x)
            elif k < 0.40 and env["vis"] and (env["writable"] + env["mine"]):
                tgt = r.choice(env["writable"] + env["mine"])
                # a name this function does not declare is only ever updated by a compound assignment: a
                # plain one would create it when nobody owns it (finding C08-implicit-declaration-by-assignment;
                # the created variable takes the type of the value, which Mech does not model)
                if r.random() < 0.5 and tgt not in env.get("foreign_w", ()):
                    out.append("(asg (v %d) %s)" % (tgt, self.pure(env["vis"], 2)))
                else:
                    out.append("(casg %s (v %d) %s)" % (r.choice(["+", "-"]), tgt, self.pure(env["vis"], 1)))
            elif k < 0.58:
                names = env["vis"]
                out.append("(print 1 %s)" % " ".join(self.pure(names, 1) if r.random() < 0.3 else "(v %d)" % r.choice(names) if names else self.lit()
                                                     for _ in range(r.randint(1, 3))))
            elif k < 0.80 and calls_left[0] > 0 and self.fns:
                calls_left[0] -= 1
                c = self.call(env, fn.params[0] if fn is not None else None)
                free = [x for x in env["pool"] if x not in env["declared"]]
                form = r.random()
                if form < 0.5 and free:
                    x = r.choice(free)
                    env["declared"].add(x)
                    out.append("(decl 0 0 long %d %s)" % (x, c))
                    for l in ("vis", "args_ok", "mine"):
                        if x not in env[l]:
                            env[l].append(x)
                    out.append("(print 1 (v %d))" % x)
                elif form < 0.8 and env["mine"]:
                    x = r.choice(env["mine"])
                    out.append("(asg (v %d) (bin + (bin %% (v %d) 1000) %s))" % (x, x, c) if r.random() < 0.5 else "(asg (v %d) %s)" % (x, c))
                else:
                    out.append("(expr %s)" % c)
                # the caller's variables after the call
                if env["mine"]:
                    out.append("(print 1 %s)" % " ".join("(v %d)" % x for x in env["mine"][:4]))
            elif k < 0.88 and depth > 0:
                self.feats.add("if")
                env2 = dict(env, declared=env["declared"])
                a = self.body(fn, env2, r.randint(1, 2), depth - 1, calls_left)
                b = self.body(fn, env2, r.randint(0, 1), depth - 1, calls_left)
                out.append("(if %s (%s) (%s))" % (self.pure(env["vis"], 1), " ".join(a), " ".join(b)))
            elif k < 0.93 and depth > 0 and env["mine"]:
                self.feats.add("loop")
                free = [x for x in env["pool"] if x not in env["declared"]]
                if not free:
                    continue
                i = r.choice(free)
                env["declared"].add(i)
                env2 = dict(env, vis=env["vis"] + [i], args_ok=env["args_ok"] + [i], mine=env["mine"], writable=env["writable"])
                inner = self.body(fn, env2, r.randint(1, 2), 0, [0])
                out.append("(for ((decl 0 0 long %d 0)) (bin < (v %d) %d) ((asg (v %d) (bin + (v %d) 1))) (%s))" % (i, i, r.randint(1, 3), i, i, " ".join(inner)))
            elif env["vis"]:
                out.append("(print 1 (v %d))" % r.choice(env["vis"]))
        return out

    def main_depth(self):
        r = self.r
        if self.branching > 1:
            return r.randint(0, 5)
        return r.choice([0, 1, 2, 3, 5, 8, 13, 21, 34, self.o.max_depth, self.o.max_depth])

    def function(self, fid, later_ids):
        r, o = self.r, self.o
        np_ = r.randint(1, 4)
        pool = list(LOCALS)
        if o.reuse and self.globals and r.random() < 0.5:
            pool = pool[:5] + self.globals[:2]       # parameters / locals named like globals
            self.feats.add("local-named-like-global")
        params = r.sample(pool, np_)
        if params[0] not in LOCALS:          # the depth parameter keeps a plain local name (never written by anybody else)
            params[0] = r.choice([x for x in LOCALS if x not in params])
        ndef = r.choice([0, 0, 1, 2, 3]) if np_ > 1 else 0
        ndef = min(ndef, np_ - 1)
        defaults = {}
        for j in range(np_ - ndef, np_):
            k = r.random()
            if k < 0.6:
                defaults[j] = self.lit()
            elif k < 0.8:
                defaults[j] = "(bin + (v %d) %s)" % (params[r.randrange(j)], self.lit())        # an earlier parameter
                self.feats.add("default-uses-param")
            elif self.globals:
                defaults[j] = "(v %d)" % r.choice(self.globals)
                self.feats.add("default-uses-global")
            else:
                defaults[j] = self.lit()
        statics = []
        if r.random() < 0.55:
            spool = STATICS + (self.globals[:2] if o.reuse and r.random() < 0.4 else [])
            statics = r.sample(spool, r.randint(1, 2))
            if set(statics) & set(self.globals):
                self.feats.add("static-named-like-global")
            statics = [s for s in statics if s not in params]
        fn = Fn(fid, params, ndef, defaults, statics, False)
        return fn

    def function_text(self, fn):
        r, o = self.r, self.o
        d = fn.params[0]
        vis = list(fn.params) + [g for g in self.globals if g not in fn.params]
        body = []
        for s in fn.statics:
            if o.reuse and r.random() < 0.25 and self.printer is not None:
                body.append("(decl 0 1 long %d (call %d %s))" % (s, self.printer, self.lit()))   # initialiser with an effect
                self.feats.add("static-init-call")
            else:
                body.append("(decl 0 1 long %d %s)" % (s, self.lit()))
            body.append("(casg + (v %d) %s)" % (s, r.choice(["1", "1", "2", "(v %d)" % d])))
        self.feats.add("statics=%d" % len(fn.statics))
        env = {"vis": vis + fn.statics, "args_ok": [x for x in vis if x not in fn.statics] if not o.reuse else vis + fn.statics,
               "mine": list(fn.params[1:]), "writable": [g for g in self.globals if g not in fn.params] + fn.statics,
               "pool": [x for x in (LOCALS if not o.reuse else LOCALS + self.globals[:1]) if x not in fn.params and x not in fn.statics],
               "declared": set(fn.params) | set(fn.statics)}
        if o.reuse:
            # names this function does not declare: resolved in its callers' scopes by the implementation
            foreign = [x for x in LOCALS if x not in fn.params]
            # (never a name some function uses as its depth parameter: recursion must stay bounded)
            wforeign = [x for x in foreign if x not in self.depth_names]
            if r.random() < 0.6:
                env["vis"] = env["vis"] + r.sample(foreign, min(2, len(foreign)))
                self.feats.add("free-name-in-callee")
            if r.random() < 0.4 and wforeign:
                env["foreign_w"] = r.sample(wforeign, 1)
                env["writable"] = env["writable"] + env["foreign_w"]
                self.feats.add("callee-writes-free-name")
        base = self.pure([x for x in env["vis"]], 1)
        body.append("(if (bin <= (v %d) 0) ((print 1 %s) (ret %s)) ())" % (d, " ".join("(v %d)" % p for p in fn.params), base))
        body.append("(print 1 %s)" % " ".join("(v %d)" % p for p in fn.params))
        calls_left = [self.branching]
        body += self.body(fn, env, r.randint(2, 5), 1, calls_left)
        if calls_left[0] > 0 and r.random() < 0.5:
            env2 = dict(env)
            c = self.call(env2, d)
            body.append("(ret (bin + %s %s))" % (c, self.pure(env["vis"], 1)) if r.random() < 0.6 else "(ret %s)" % c)
            self.feats.add("return-call")
        else:
            body.append("(ret %s)" % self.pure(env["vis"], 2))
        ps = " ".join("(%d long%s)" % (p, (" " + fn.defaults[j]) if j in fn.defaults else "") for j, p in enumerate(fn.params))
        return "(F %d long (%s) (%s))" % (fn.fid, ps, " ".join(body))

    def program(self):
        r, o = self.r, self.o
        self.globals = r.sample(GLOBALS, r.randint(0, 3))
        globs = ["(G 0 long %d () (%s))" % (g, self.lit().replace("-", "")) for g in self.globals]
        self.branching = 1 if r.random() < 0.6 else 2
        nf = r.randint(1, o.max_funcs)
        self.printer = None
        texts = []
        if o.reuse and r.random() < 0.5:
            # a helper that prints and returns its argument (for static initialisers with an effect)
            self.printer = 90
            texts.append("(F 90 long ((9 long)) ((print 1 (bin + 1000 (v 9))) (ret (v 9))))")
        self.fns = [self.function(i + 1, None) for i in range(nf)]
        self.depth_names = set(fn.params[0] for fn in self.fns)
        texts += [self.function_text(fn) for fn in self.fns]
        pool = LOCALS if not o.reuse else LOCALS + self.globals[:2]
        env = {"vis": list(self.globals), "args_ok": list(self.globals), "mine": [], "writable": list(self.globals),
               "pool": list(pool), "declared": set()}
        calls_left = [r.randint(2, 6)]
        pre = []
        if o.reuse and r.random() < 0.8:
            # main owns most of the names the callees leave undeclared: they resolve to main's (or an
            # intermediate caller's) locals instead of being reported
            for x in r.sample(LOCALS, r.randint(4, 7)):
                pre.append("(decl 0 0 long %d %s)" % (x, self.lit()))
                env["declared"].add(x)
                for l in ("vis", "args_ok", "mine"):
                    env[l].append(x)
        main = pre + self.body(None, env, r.randint(4, 9), 1, calls_left)
        # make sure main calls something, and shows its own variables afterwards (names declared inside
        # nested blocks of main are not visible here: only the top-level ones are used)
        top = []
        for s in main:
            if s.startswith("(decl 0 0 long "):
                top.append(int(s.split()[4]))
        env2 = dict(env, vis=list(self.globals) + top, args_ok=list(self.globals) + top)
        for _ in range(r.randint(1, 3)):
            free = [x for x in env["pool"] if x not in env["declared"]]
            if not free:
                break
            x = r.choice(free)
            env["declared"].add(x)
            main.append("(decl 0 0 long %d %s)" % (x, self.call(env2, None)))
            main.append("(print 1 (v %d))" % x)
            top.append(x)
            env2["vis"].append(x); env2["args_ok"].append(x)
        if top:
            main.append("(print 1 %s)" % " ".join("(v %d)" % x for x in top[:5]))
        if self.globals:
            main.append("(print 1 %s)" % " ".join("(v %d)" % g for g in self.globals))
        if r.random() < o.arity_errors:
            main.append("(expr %s)" % self.call(env2, None, bad_arity=True))
            main.append("(print 1 12345)")
        return "(P (%s) (%s) (%s))" % (" ".join(globs), " ".join(texts), " ".join(main))

def gen_program(rng, opts=None):
    g = Gen(rng, opts)
    p = g.program()
    return p, g.feats


# ---------------------------------------------------------------------------------------------
# directed programs: one clause of the property each
# ---------------------------------------------------------------------------------------------
def directed(rng, k):
    """-> (sexpr, tag). Cycles through the clauses of C08 with random parameters; all inside the lexical family."""
    r = rng
    kind = k % 6
    if kind == 0:
        # positional binding: n parameters, echoed in declaration order; arguments are distinct caller variables
        n = r.randint(1, 6)
        ps = list(range(1, n + 1))
        body = "(print 1 %s) (ret (bin + %s 0))" % (" ".join("(v %d)" % p for p in ps), "(v %d)" % ps[r.randrange(n)])
        f = "(F 1 long (%s) (%s))" % (" ".join("(%d long)" % p for p in ps), body)
        cs = [20 + j for j in range(n)]
        vals = r.sample(range(-50, 50), n)
        perm = r.sample(cs, n)
        main = " ".join("(decl 0 0 long %d %d)" % (c, v) for c, v in zip(cs, vals))
        main += " (decl 0 0 long 40 (call 1 %s)) (print 1 (v 40)) (print 1 %s)" % (" ".join("(v %d)" % c for c in perm), " ".join("(v %d)" % c for c in cs))
        return "(P () (%s) (%s))" % (f, main), "positional"
    if kind == 1:
        # defaults: every argument count from required to declared (and one below / one above at the end)
        n = r.randint(2, 6)
        nd = r.randint(1, n - 1)
        ps = list(range(1, n + 1))
        dv = {j: r.randint(-20, 20) for j in range(n - nd, n)}
        f = "(F 1 long (%s) ((print 1 %s) (ret (bin + (bin * (v 1) 2) (v %d)))))" % (
            " ".join("(%d long%s)" % (p, (" %d" % dv[j]) if j in dv else "") for j, p in enumerate(ps)),
            " ".join("(v %d)" % p for p in ps), n)
        main = []
        for cnt in range(n - nd, n + 1):
            main.append("(decl 0 0 long %d (call 1 %s))" % (20 + cnt, " ".join(str(r.randint(-9, 9)) for _ in range(cnt))))
            main.append("(print 1 (v %d))" % (20 + cnt))
        bad = r.choice([n - nd - 1, n + 1])
        if bad >= 0 and r.random() < 0.6:
            main.append("(expr (call 1 %s))" % " ".join(str(j) for j in range(bad)))
            main.append("(print 1 777)")
        return "(P () (%s) (%s))" % (f, " ".join(main)), "defaults+arity"
    if kind == 2:
        # statics: interleaved calls to counters owning a static of the SAME name
        nf = r.randint(2, 4)
        fs = []
        for i in range(1, nf + 1):
            init, step = r.randint(-5, 50), r.randint(1, 9)
            fs.append("(F %d long ((1 long)) ((decl 0 1 long 70 %d) (casg + (v 70) (bin * (v 1) %d)) (ret (v 70))))" % (i, init, step))
        main = []
        for j in range(r.randint(4, 14)):
            main.append("(decl 0 0 long %d (call %d %d))" % (100 + j, r.randint(1, nf), r.randint(0, 3)))
            main.append("(print 1 (v %d))" % (100 + j))
        return "(P () (%s) (%s))" % (" ".join(fs), " ".join(main)), "statics-interleaved"
    if kind == 3:
        # recursion levels: every level has its own v2 / v3, printed after the deeper levels returned
        depth = r.choice([1, 2, 3, 10, 25, 49, 50])
        mul = r.randint(2, 9)
        f = ("(F 1 long ((1 long) (2 long)) ((decl 0 0 long 3 (bin + (bin * (v 1) %d) (v 2))) "
             "(if (bin <= (v 1) 0) ((ret (v 3))) ()) "
             "(decl 0 0 long 4 (call 1 (bin - (v 1) 1) (bin + (v 3) 1))) "
             "(print 1 (v 1) (v 2) (v 3)) (ret (bin + (bin %% (v 4) 1000) (v 3)))))" % mul)
        main = "(decl 0 0 long 1 7) (decl 0 0 long 2 8) (decl 0 0 long 3 9) (decl 0 0 long 4 (call 1 %d 5)) (print 1 (v 1) (v 2) (v 3) (v 4))" % depth
        return "(P () (%s) (%s))" % (f, main), "recursion-depth-%d" % depth
    if kind == 4:
        # mutual recursion a -> b -> a ..., locals of the same names at every level, a global counted on the way
        depth = r.choice([2, 5, 20, 50])
        fa = ("(F 1 long ((1 long) (2 long %d)) ((decl 0 0 long 3 (bin + (v 1) (v 2))) (casg + (v 50) 1) "
              "(if (bin <= (v 1) 0) ((ret (v 3))) ()) (decl 0 0 long 4 (call 2 (bin - (v 1) 1))) (print 1 (v 3) (v 4)) (ret (bin + (v 3) (bin %% (v 4) 100)))))" % r.randint(0, 9))
        fb = ("(F 2 long ((1 long) (2 long %d) (3 long %d)) ((decl 0 0 long 4 (bin - (v 2) (v 3))) (casg + (v 50) 2) "
              "(if (bin <= (v 1) 0) ((ret (v 4))) ()) (decl 0 0 long 5 (call 1 (bin - (v 1) 1) (v 4))) (print 1 (v 4) (v 5)) (ret (bin - (v 5) (v 4)))))" % (r.randint(0, 9), r.randint(0, 9)))
        main = "(decl 0 0 long 3 1) (decl 0 0 long 4 2) (decl 0 0 long 5 (call 1 %d)) (print 1 (v 3) (v 4) (v 5) (v 50))" % depth
        return "(P ((G 0 long 50 () (0))) (%s %s) (%s))" % (fa, fb, main), "mutual-recursion-%d" % depth
    # the returned value reaches the caller unchanged: boundary values through `long` functions
    vals = [0, 1, -1, 2**31 - 1, 2**31, -2**31, -2**31 - 1, 2**32, 2**53 + 1, 2**62, 2**63 - 1, -2**63 + 1, r.randint(-2**63 + 1, 2**63 - 1)]
    v = r.choice(vals)
    f = "(F 1 long ((1 long)) ((ret (v 1))))"
    g = "(F 2 long ((1 long)) ((decl 0 0 long 2 (call 1 (v 1))) (ret (v 2))))"
    main = "(decl 0 0 long 1 %d) (decl 0 0 long 2 (call 2 (v 1))) (print 1 (v 2)) (if (bin == (v 1) (v 2)) ((print 1 1)) ((print 1 0)))" % v
    return "(P () (%s %s) (%s))" % (f, g, main), "return-value"
