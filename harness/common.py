"""Shared machinery for the Cb verification checks (see DESIGN.md section 4).

Everything here is deterministic given VERIF_SEED and /repo's working tree.
"""
import concurrent.futures
import fcntl
import hashlib
import json
import os
import random
import re
import shutil
import subprocess
import sys
import tempfile
import time

VERIF = os.path.dirname(os.path.dirname(os.path.abspath(__file__)))
REPO = os.environ.get("CB_REPO", "/repo")     # CB_REPO: validate a check against a scratch copy (mutants)
CACHE = os.path.join(VERIF, ".cache")
COQ = os.path.join(VERIF, "coq")
BIN = os.path.join(VERIF, "bin")
EVID = os.environ.get("CB_EVID_DIR") or os.path.join(VERIF, "evidence")      # redirected when validating mutants
REPLAYS = os.environ.get("CB_REPLAY_DIR") or os.path.join(VERIF, "replays")
SCRATCH_ROOT = "/var/tmp"
GUARD = "CB_VERIF"
NCPU = min(16, os.cpu_count() or 4)


def log(*a):
    print(*a, file=sys.stderr, flush=True)


def sh(cmd, cwd=None, timeout=600, env=None, input=None):
    """Run a command (list or shell string); returns (rc, stdout, stderr) as text."""
    try:
        p = subprocess.run(cmd, shell=isinstance(cmd, str), cwd=cwd, timeout=timeout, env=env,
                           input=input, stdout=subprocess.PIPE, stderr=subprocess.PIPE)
        return p.returncode, p.stdout.decode("utf-8", "replace"), p.stderr.decode("utf-8", "replace")
    except subprocess.TimeoutExpired as e:
        out = (e.stdout or b"").decode("utf-8", "replace")
        err = (e.stderr or b"").decode("utf-8", "replace")
        return 124, out, err


# ----------------------------------------------------------------------------------------------
# Implementation builds, keyed on a hash of /repo's working tree sources
# ----------------------------------------------------------------------------------------------

_HASH_DIRS = ["src", "stdlib", "Makefile"]


def tree_hash():
    h = hashlib.sha256()
    files = []
    for d in _HASH_DIRS:
        p = os.path.join(REPO, d)
        if os.path.isfile(p):
            files.append(p)
            continue
        for root, dirs, fs in os.walk(p):
            dirs.sort()
            for f in sorted(fs):
                if f.endswith((".o", ".so", ".a", ".dylib")):
                    continue
                files.append(os.path.join(root, f))
    for f in files:
        h.update(os.path.relpath(f, REPO).encode())
        h.update(b"\0")
        try:
            with open(f, "rb") as fh:
                h.update(hashlib.sha256(fh.read()).digest())
        except OSError:
            h.update(b"?")
    return h.hexdigest()[:24]


class Lock:
    def __init__(self, name):
        os.makedirs(CACHE, exist_ok=True)
        self.path = os.path.join(CACHE, name + ".lock")

    def __enter__(self):
        self.fh = open(self.path, "w")
        fcntl.flock(self.fh, fcntl.LOCK_EX)
        return self

    def __exit__(self, *a):
        fcntl.flock(self.fh, fcntl.LOCK_UN)
        self.fh.close()


_BASE_FLAGS = "-Wall -std=c++17 -I. -Isrc -Isrc/backend/interpreter -D" + GUARD
_KIND_FLAGS = {
    "plain": _BASE_FLAGS + " -O1",
    "asan": _BASE_FLAGS + " -O1 -g -fsanitize=address,undefined -fno-sanitize-recover=all -fno-omit-frame-pointer",
}


def _prune_cache(keep):
    d = os.path.join(CACHE, "impl")
    if not os.path.isdir(d):
        return
    ents = sorted((os.path.getmtime(os.path.join(d, e)), e) for e in os.listdir(d))
    for mt, e in ents[:-30]:
        if e != keep and time.time() - mt > 3600:     # never remove a build another running check may be using
            shutil.rmtree(os.path.join(d, e), ignore_errors=True)


def build_impl(kind="plain"):
    """Build /repo's current working tree with hooks on; returns the directory holding `main`
    and a copy of `stdlib/` (programs are run with that directory as cwd)."""
    th = tree_hash()
    key = th + "-" + kind
    dest = os.path.join(CACHE, "impl", key)
    with Lock("impl-" + kind):
        if os.path.exists(os.path.join(dest, "main")):
            os.utime(dest, None)
            return dest
        scratch = tempfile.mkdtemp(prefix="cbverif-build-", dir=SCRATCH_ROOT)
        try:
            t0 = time.time()
            rc, o, e = sh(["rsync", "-a", "--exclude", "*.o", "--exclude", "/main", "--exclude", ".git",
                           "--exclude", "/tests", "--exclude", "/docs", "--exclude", "/sample",
                           "--exclude", "/vscode-extension", "--exclude", "/release_notes",
                           REPO + "/", scratch + "/"])
            if rc != 0:
                raise RuntimeError("rsync failed: " + e)
            rc, o, e = sh(["make", "-j%d" % NCPU, "main", "CFLAGS=" + _KIND_FLAGS[kind]],
                          cwd=scratch, timeout=1500)
            if rc != 0 or not os.path.exists(os.path.join(scratch, "main")):
                raise BuildError("build of /repo failed (%s):\n%s" % (kind, (e or o)[-3000:]))
            tmpd = dest + ".tmp%d" % os.getpid()
            shutil.rmtree(tmpd, ignore_errors=True)
            os.makedirs(tmpd)
            shutil.copy2(os.path.join(scratch, "main"), os.path.join(tmpd, "main"))
            if kind == "plain":
                sh(["strip", os.path.join(tmpd, "main")])
            shutil.copytree(os.path.join(scratch, "stdlib"), os.path.join(tmpd, "stdlib"))
            shutil.rmtree(dest, ignore_errors=True)
            os.rename(tmpd, dest)
            log("[build] %s build of tree %s: %.1fs" % (kind, th, time.time() - t0))
        finally:
            shutil.rmtree(scratch, ignore_errors=True)
        _prune_cache(key)
    return dest


class BuildError(Exception):
    pass


def build_leaf(name, sources, extra_flags=""):
    """Compile a small C++ driver from harness/cpp/<name>.cpp against /repo's current sources.
    `sources` are repo-relative .cpp files linked in. Cached on the tree hash."""
    th = tree_hash()
    drv = os.path.join(VERIF, "harness", "cpp", name + ".cpp")
    dh = hashlib.sha256(open(drv, "rb").read() + extra_flags.encode()).hexdigest()[:8]   # the driver's own text is part of the key
    dest = os.path.join(CACHE, "leaf", th)
    out = os.path.join(dest, name + "-" + dh)
    with Lock("leaf-" + name):
        if os.path.exists(out):
            try:
                os.utime(dest, None)      # in use: keep it out of reach of a concurrent check's pruning
            except OSError:
                pass
            return out
        os.makedirs(dest, exist_ok=True)
        cmd = "g++ -std=c++17 -O1 -w -D%s -I%s -I%s/src -I%s/src/backend/interpreter %s %s %s -o %s.tmp -ldl" % (
            GUARD, REPO, REPO, REPO, extra_flags, drv,
            " ".join(os.path.join(REPO, s) for s in sources), out)
        rc, o, e = sh(cmd, timeout=600)
        if rc != 0:
            raise BuildError("leaf driver %s failed to build:\n%s" % (name, e[-3000:]))
        os.rename(out + ".tmp", out)
        # prune old leaf dirs
        d = os.path.join(CACHE, "leaf")
        ents = sorted((os.path.getmtime(os.path.join(d, x)), x) for x in os.listdir(d))
        for mt, x in ents[:-30]:
            if x != th and time.time() - mt > 3600:
                shutil.rmtree(os.path.join(d, x), ignore_errors=True)
    return out


def run_cb(impl_dir, source, timeout=10, args=(), env=None, cwd=None, extra_files=None):
    """Run one Cb program text on the implementation; returns (rc, stdout, stderr)."""
    d = tempfile.mkdtemp(prefix="cbrun-", dir=SCRATCH_ROOT)
    try:
        p = os.path.join(d, "t.cb")
        with open(p, "w", encoding="utf-8", errors="surrogateescape") as fh:
            fh.write(source)
        for rel, txt in (extra_files or {}).items():
            q = os.path.join(d, rel)
            os.makedirs(os.path.dirname(q), exist_ok=True)
            with open(q, "w") as fh:
                fh.write(txt)
        e = dict(os.environ)
        e.update(env or {})
        return sh([os.path.join(impl_dir, "main"), p] + list(args), cwd=cwd or impl_dir, timeout=timeout, env=e)
    finally:
        shutil.rmtree(d, ignore_errors=True)


def pmap(fn, items, workers=NCPU):
    items = list(items)
    if not items:
        return []
    with concurrent.futures.ThreadPoolExecutor(max_workers=workers) as ex:
        return list(ex.map(fn, items))


# ----------------------------------------------------------------------------------------------
# Coq side
# ----------------------------------------------------------------------------------------------

FORBIDDEN = re.compile(r"\b(Admitted|admit|Axiom|Axioms|Parameter|Parameters|Conjecture|Conjectures|"
                       r"Admit Obligations|bypass_check|Unset Guard Checking|Unset Positivity Checking|"
                       r"Unset Universe Checking|type-in-type|impredicative-set)\b")


def strip_coq_comments(txt):
    out, depth, i = [], 0, 0
    while i < len(txt):
        if txt.startswith("(*", i):
            depth += 1
            i += 2
        elif txt.startswith("*)", i) and depth:
            depth -= 1
            i += 2
        else:
            if not depth:
                out.append(txt[i])
            i += 1
    return "".join(out)


def coq_forbidden_scan():
    bad = []
    for root, _, fs in os.walk(COQ):
        for f in fs:
            if f.endswith(".v"):
                p = os.path.join(root, f)
                txt = strip_coq_comments(open(p).read())
                for m in FORBIDDEN.finditer(txt):
                    # section-local Variable/Hypothesis are fine; these words are not
                    bad.append("%s: %s" % (os.path.relpath(p, VERIF), m.group(0)))
    return bad


def coq_make(targets, timeout=1500):
    """(Re)build the given .vo targets (relative to coq/) with the project Makefile."""
    with Lock("coq"):
        env = dict(os.environ, CBV_LOCKED="1")
        sh(["bash", os.path.join(VERIF, "harness", "setup.sh"), "coq-makefile"], timeout=120, env=env)
        rc, o, e = sh(["make", "-k", "-j%d" % NCPU] + list(targets), cwd=COQ, timeout=timeout)
    return rc, o + e


def coq_check_props(prop, extra_deps=()):
    """Compile coq/<prop>/Properties_<prop>.v (and every further coq/<prop>/Properties_<prop>_*.v, which hold the property
    theorems of one sub-development each) from scratch after making their dependencies and report obligations / discharged /
    axioms. Returns a dict."""
    import glob as _glob
    rels = ["%s/Properties_%s" % (prop, prop)] + sorted(
        os.path.relpath(f, COQ)[:-2] for f in _glob.glob(os.path.join(COQ, prop, "Properties_%s_*.v" % prop)))
    res = {"file": ", ".join("coq/" + r + ".v" for r in rels), "theorems": [], "obligations": 0, "discharged": 0,
           "assumptions": {}, "ok": False, "log": "", "failed_theorem": None, "coqc_s": 0.0}
    per = []
    for rel in rels:
        txt = strip_coq_comments(open(os.path.join(COQ, rel + ".v")).read())
        thms = re.findall(r"^\s*(?:Theorem|Corollary)\s+([A-Za-z0-9_']+)", txt, re.M)
        per.append((rel, thms))
        res["theorems"] += thms
    res["obligations"] = len(res["theorems"])
    bad = coq_forbidden_scan()
    if bad:
        res["log"] = "forbidden vernacular in development: " + "; ".join(bad[:10])
        return res
    # dependencies
    rc, out = coq_make([rel + ".vo" for rel, _ in per] + list(extra_deps))
    ok_all = (rc == 0)
    if rc != 0:
        res["log"] += out[-2000:]
    for rel, thms in per:
        src = os.path.join(COQ, rel + ".v")
        # always re-run coqc on the Properties file itself to capture Print Assumptions
        t0 = time.time()
        rc2, o, e = sh(["coqc", "-Q", ".", "Cb", rel + ".v"], cwd=COQ, timeout=900)
        res["coqc_s"] = round(res["coqc_s"] + time.time() - t0, 2)
        res["log"] += o[-6000:] + e[-3000:]
        if rc2 == 0 and rc == 0:
            res["discharged"] += len(thms)
            # parse Print Assumptions blocks in order
            blocks = re.split(r"(?=Closed under the global context|Axioms:)", o)
            ass = [b.strip() for b in blocks if b.startswith("Closed under") or b.startswith("Axioms:")]
            for i, t in enumerate(thms):
                res["assumptions"][t] = ass[i].split("\n")[0] if i < len(ass) and ass[i].startswith("Closed") else (
                    ass[i] if i < len(ass) else "not printed")
            continue
        ok_all = False
        if res["failed_theorem"] is not None:
            continue
        mdep = re.search(r'File "\./([^"]+)", line (\d+)', out) if rc != 0 else None
        m = None if mdep else re.search(r'line (\d+)', e)
        if mdep:
            res["failed_theorem"] = "dependency %s line %s" % (mdep.group(1), mdep.group(2))
        elif m:
            ln = int(m.group(1))
            raw = open(src).read().split("\n")
            name = None
            for l in raw[:ln]:
                mm = re.match(r"\s*(?:Theorem|Corollary)\s+([A-Za-z0-9_']+)", l)
                if mm:
                    name = mm.group(1)
            res["failed_theorem"] = name
            if name in thms:
                res["discharged"] += thms.index(name)
        else:
            # a dependency failed: find which file
            m = re.search(r'File "\./([^"]+)", line (\d+)', out)
            res["failed_theorem"] = ("dependency " + m.group(1)) if m else "dependency"
    res["ok"] = ok_all
    return res


def coqchk(prop, timeout=2400):
    """Independent re-check of the property's compiled closure with coqchk; returns (ok, axioms-text)."""
    import glob as _glob
    mods = ["Cb.%s.Properties_%s" % (prop, prop)] + sorted(
        "Cb.%s.%s" % (prop, os.path.basename(f)[:-2]) for f in _glob.glob(os.path.join(COQ, prop, "Properties_%s_*.v" % prop)))
    rc, o, e = sh(["coqchk", "-o", "-silent", "-Q", ".", "Cb"] + mods, cwd=COQ, timeout=timeout)
    txt = (o + e)
    m = re.search(r"CONTEXT SUMMARY(.*)", txt, re.S)
    return rc == 0, (m.group(1).strip() if m else txt[-1500:])


def model_bin(prop):
    return os.path.join(BIN, prop.lower() + "_model")


def ensure_model(prop):
    """Make sure the extracted OCaml model driver for `prop` is built and current."""
    with Lock("ocaml-" + prop):
        rc, o, e = sh(["bash", os.path.join(VERIF, "harness", "setup.sh"), "model", prop], timeout=1500)
    if rc != 0:
        raise BuildError("model build for %s failed:\n%s" % (prop, (o + e)[-3000:]))
    return model_bin(prop)


def run_model(prop, subcmd, lines, timeout=600):
    """Feed `lines` (list of str) to bin/<prop>_model <subcmd>; returns list of output lines."""
    rc, o, e = sh([model_bin(prop), subcmd], input=("\n".join(lines) + "\n").encode(), timeout=timeout)
    if rc != 0:
        raise RuntimeError("model %s %s failed rc=%d: %s" % (prop, subcmd, rc, e[-2000:]))
    return o.split("\n")[:-1] if o.endswith("\n") else o.split("\n")


# ----------------------------------------------------------------------------------------------
# Known findings, violations, evidence
# ----------------------------------------------------------------------------------------------

def known_findings(prop):
    p = os.path.join(VERIF, "known_findings", prop + ".json")
    if not os.path.exists(p):
        return []
    data = json.load(open(p))
    return [f for f in data.get("findings", []) if f.get("property", prop) == prop]


def run_fixed_replays(rep):
    """Regression replays of REPAIRED defects: known_findings/<prop>.json may carry a list `fixed_replays` of
    {id, commit, program, expected_stdout, expected_rc (0 | 1), [args]}; each program is run on the current tree and any deviation
    from what the property demands is a violation (a `fixed` entry suppresses nothing: the defect is reported again if it returns)."""
    p = os.path.join(VERIF, "known_findings", rep.prop + ".json")
    if not os.path.exists(p):
        return
    entries = json.load(open(p)).get("fixed_replays", [])
    if not entries:
        return
    impl = build_impl("plain")
    n_ok = 0
    for f in entries:
        rc, o, e = run_cb(impl, f["program"], timeout=20, args=tuple(f.get("args", ())))
        want_rc = f.get("expected_rc", 0)
        ok = (o == f["expected_stdout"]) and ((rc == 0) == (want_rc == 0)) and rc in (0, 1)
        if ok:
            n_ok += 1
        else:
            rep.violation("regress", {"id": f["id"], "commit": f.get("commit"), "program": f["program"], "expected_stdout": f["expected_stdout"],
                                      "expected_rc": want_rc, "stdout": o, "rc": rc, "stderr": e[-600:]},
                          "a repaired defect is back (%s, repaired by %s): main prints %r exit %d, demanded %r exit %d" % (
                              f["id"], f.get("commit"), o[:120], rc, f["expected_stdout"][:120], want_rc))
    rep.coverage["fixed_replays"] = {"entries": len(entries), "as_demanded": n_ok}


class Report:
    def __init__(self, prop, tier, seed):
        self.prop, self.tier, self.seed = prop, tier, seed
        self.t0 = time.time()
        self.violations = []      # (replay_path, text, no_input)
        self.known_hits = []      # (finding id, text)
        self.coverage = {}
        self.assumptions = []
        self.notes = []

    def violation(self, name, payload, text, no_failing_input=False):
        os.makedirs(REPLAYS, exist_ok=True)
        h = hashlib.sha256(json.dumps(payload, sort_keys=True, default=str).encode()).hexdigest()[:10]
        path = os.path.join(REPLAYS, "%s-%s-%s.json" % (self.prop, name, h))
        with open(path, "w") as fh:
            json.dump({"property": self.prop, "what": text, "case": payload,
                       "no_failing_input_found": no_failing_input}, fh, indent=1, default=str)
        self.violations.append((path, text, no_failing_input))
        return path

    def known(self, fid, text):
        if fid not in [k for k, _ in self.known_hits]:
            self.known_hits.append((fid, text))

    def finish(self, level="proof"):
        os.makedirs(EVID, exist_ok=True)
        wall = round(time.time() - self.t0, 2)
        ev = {"property_id": self.prop, "tier": self.tier, "seed": self.seed, "level": level,
              "coverage": self.coverage, "assumptions": self.assumptions, "wall_s": wall,
              "violations": len(self.violations), "known_findings_reproduced": [k for k, _ in self.known_hits],
              "notes": self.notes}
        with open(os.path.join(EVID, self.prop + ".json"), "w") as fh:
            json.dump(ev, fh, indent=1, default=str)
        for fid, text in self.known_hits:
            print("KNOWN-FINDING: property=%s %s [%s]" % (self.prop, text, fid))
        seen = set()
        for path, text, noinp in self.violations:
            if path in seen:
                continue
            seen.add(path)
            print("VIOLATION property=%s replay=%s %s%s" % (
                self.prop, path, text.replace("\n", " ")[:300], " no-failing-input-found" if noinp else ""))
        sys.stdout.flush()
        return 1 if self.violations else 0


def proof_coverage(rep, cq, checker_extra=""):
    """Fill the proof-level coverage keys from a coq_check_props result."""
    rep.coverage.update({
        "obligations": cq["obligations"], "discharged": cq["discharged"],
        "checker_cmd": "make -C coq %s.vo && coqc -Q . Cb %s (Coq 8.16.1 kernel)%s" % (
            cq["file"][4:-2], cq["file"][4:], checker_extra),
        "theorems": cq["theorems"], "print_assumptions": cq["assumptions"],
        "trusted_base": [
            "Coq 8.16.1 kernel incl. vm_compute (no native_compute)",
            "axioms: " + (", ".join(sorted(set(v for v in cq["assumptions"].values()))) or "n/a"),
            "hand-written Gallina model of the named C++/Cb functions (DESIGN.md section 5)",
            "OCaml extraction (ExtrOcamlBasic, ExtrOcamlString, ExtrOcamlNativeString where stated) + ocamlopt + driver",
            "Python correspondence harness and guarded hooks in /repo",
        ],
    })
    if not cq["ok"]:
        rep.notes.append("coq: " + cq["log"][-1500:])


def rng_for(seed, *salt):
    return random.Random(hashlib.sha256(("%s|%s" % (seed, "|".join(map(str, salt)))).encode()).digest())
