"""Generator of CbCore programs as S-expressions (grammar in ocaml/lang_driver.ml).

All randomness comes from the `rng` passed in. The generator stays inside the fragment where the
implementation and the reference semantics are expected to agree: each `avoid_*` switch
corresponds to one recorded finding (known_findings/*.json) and can be turned off by the check
that reproduces that finding.
"""

LITS = [0, 1, 2, 3, 5, 7, 10, 100, -1, -2, -3, -7, 127, 128, -128, -129, 255, 256, 32767, 32768, -32768, -32769,
        65535, 65536, 2147483647, 2147483648, -2147483648, -2147483649, 4294967295, 4294967296,
        4611686018427387904, 9223372036854775807, -9223372036854775807, -9223372036854775808]
SMALL = [0, 1, 2, 3, 4, 5, 7, 10, -1, -2, -3]
ARITH = ["+", "-", "*", "/", "%", "&", "|", "^", "<<", ">>"]
CMP = ["<", "<=", ">", ">=", "==", "!="]
TYPES = ["int", "int", "int", "long", "long", "short", "tiny", "char", "uint", "ushort", "utiny", "ulong"]
RANGES = {"tiny": (-128, 127), "short": (-32768, 32767), "int": (-2**31, 2**31 - 1), "long": (-2**63, 2**63 - 1),
          "char": (-128, 127), "utiny": (0, 255), "ushort": (0, 65535), "uint": (0, 2**32 - 1), "ulong": (0, 2**63 - 1),
          "uchar": (0, 255), "bool": (0, 1)}


def sexp_items(e):
    """top-level items of the S-expression string `(a b (c d) e)` -> ['a', 'b', '(c d)', 'e']"""
    assert e[0] == "(" and e[-1] == ")"
    out, depth, cur = [], 0, ""
    for ch in e[1:-1]:
        if ch == "(":
            depth += 1
        elif ch == ")":
            depth -= 1
        if ch == " " and depth == 0:
            if cur:
                out.append(cur)
            cur = ""
        else:
            cur += ch
    if cur:
        out.append(cur)
    return out


class Opts:
    def __init__(self, **kw):
        self.avoid_short_circuit = False    # C03 #5 (fixed by a51b767): && || evaluated both operands
        self.avoid_ternary_nonint = False   # C01 #39 (fixed by 990fbc8): ?: yielded 0 when the chosen branch was a long/short/tiny variable
        self.avoid_elem_rhs = False         # C01 #40/#41 (fixed by 9f37f83, df79998): a[i] = (c ? x : y) stored 0; a[i] = f() called f twice
        self.avoid_elem_compound = True     # C01 #1: a[e] op= v only for literal / variable index on 1-D arrays
        self.avoid_incdec_limit = False     # C04 #7 (fixed by 892a98c/1b2d709): ++/-- were not range checked
        self.avoid_multidim_narrow = False  # C04 (fixed by a6c628c): stores into multi-dimensional arrays were not range checked
        self.avoid_print_retry = True       # C01/C03: println re-evaluates an argument whose evaluation failed
        self.avoid_multi_index_order = False # C03 (store side fixed by 2967bbb): indices of a multi-dimensional access were evaluated right to left
        self.avoid_ternary_multidim = False # C01/C10: a ?: branch that mentions a multi-dimensional element crashes the interpreter (SIGSEGV)
        self.avoid_assign_top_ternary = True # C01: `x = c ? a : ~(p == q);` stores the bool-normalised branch value (1 instead of -1)
        self.avoid_return_elem = True       # C04/C10: `return m[i][j];` (bare multi-dim element) loses the range check / crashes the caller
        self.extras = False                 # further forms of the sequential core (C01 only): element ++/--, <<= >>=, call statements,
                                            # void functions, narrow result types, static locals, print without newline
        self.structs = False                # plain structs in main (struct declarations, members as operands / targets, whole-struct copy)
        self.max_stmts = 8
        self.max_depth = 3
        self.expr_depth = 3
        self.funcs = 3
        self.arrays = True
        self.wide_lits = True
        self.__dict__.update(kw)


class Gen:
    def __init__(self, rng, opts=None):
        self.r = rng
        self.o = opts or Opts()
        self.nv = 0
        self.nf = 0
        self.funcs = []      # (id, [param types], ndefaults)
        self.safe_funcs = set()   # functions whose body cannot fail and does not call unsafe functions
        self.safe_mode = False
        self.rec_funcs = set()
        self.void_funcs = set()   # callable only as statements
        self.member_arrays = set()   # cells of struct members that are arrays: no compound assignment / ++ / -- on their elements
                                     # (rejected: "Undefined array: m" / "Invalid array access in increment/decrement" - finding C01-compound-elem-index)
        self.feats = set()

    def var(self):
        self.nv += 1
        return self.nv

    # ---------------------------------------------------------------- expressions
    def lit(self, small=False):
        r = self.r
        if small or not self.o.wide_lits or r.random() < 0.6:
            return str(r.choice(SMALL))
        if r.random() < 0.7:
            return str(r.choice(LITS))
        return str(r.randint(-2**63, 2**63 - 1) >> r.choice([0, 8, 16, 31, 32, 40, 56]))

    def leaf(self, env, small=False):
        r = self.r
        sc = [v for v in env["scalars"]]
        if sc and r.random() < 0.6:
            return "(v %d)" % r.choice(sc)[0]
        return self.lit(small)

    def safe_expr(self, env, d):
        """no calls, no / %, no indexing, no shifts: cannot fail and has no effects"""
        r = self.r
        if d <= 0 or r.random() < 0.35:
            return self.leaf(env, small=True)
        k = r.random()
        if k < 0.6:
            return "(bin %s %s %s)" % (r.choice(CMP), self.safe_expr(env, d - 1), self.safe_expr(env, d - 1))
        if k < 0.8:
            return "(bin %s %s %s)" % (r.choice(["&", "|", "^"]), self.safe_expr(env, d - 1), self.safe_expr(env, d - 1))
        return "(un %s %s)" % (r.choice(["!", "~"]), self.safe_expr(env, d - 1))

    def index(self, env, n, d):
        """mostly in range: ((e % n) + n) % n; sometimes a raw boundary literal"""
        r = self.r
        k = r.random()
        if k < 0.12 and not self.safe_mode:
            self.feats.add("raw-index")
            return str(r.choice([-1, 0, n - 1, n, n + 1]))
        if k < 0.45:
            return str(r.randint(0, n - 1))
        e = self.expr(env, min(d, 1), calls=False)
        return "(bin %% (bin + (bin %% %s %d) %d) %d)" % (e, n, n, n)

    def indices(self, env, dims, d):
        """index list for an access; with avoid_multi_index_order at most one index can fail or have effects"""
        if len(dims) > 1 and self.o.avoid_multi_index_order:
            risky = self.r.randrange(len(dims))
            return " ".join(self.index(env, n, d) if j == risky else str(self.r.randint(0, n - 1)) for j, n in enumerate(dims))
        return " ".join(self.index(env, n, d) for n in dims)

    def expr(self, env, d, calls=True):
        r = self.r
        if d <= 0 or r.random() < 0.22:
            return self.leaf(env)
        k = r.random()
        if k < 0.40:
            op = r.choice(["+", "-", "&", "|", "^"] if self.safe_mode else ARITH)
            a = self.expr(env, d - 1, calls)
            b = self.expr(env, d - 1, calls)
            if op in ("<<", ">>") and r.random() < 0.85:
                b = str(r.choice([0, 1, 2, 3, 7, 31, 32, 62, 63]))
            self.feats.add("op" + op)
            return "(bin %s %s %s)" % (op, a, b)
        if k < 0.52:
            return "(bin %s %s %s)" % (r.choice(CMP), self.expr(env, d - 1, calls), self.expr(env, d - 1, calls))
        if k < 0.62:
            op = r.choice(["and", "or"])
            self.feats.add(op)
            a = self.expr(env, d - 1, calls)
            b = self.safe_expr(env, d - 1) if self.o.avoid_short_circuit else self.expr(env, d - 1, calls)
            return "(%s %s %s)" % (op, a, b)
        if k < 0.70:
            return "(un %s %s)" % (r.choice(["-", "!", "~"]), self.expr(env, d - 1, calls))
        if k < 0.78:
            self.feats.add("cond")
            c = self.expr(env, d - 1, calls)
            if self.o.avoid_ternary_nonint:
                ints = [v for v in env["scalars"] if v[1] == "int"]
                def br():
                    if ints and r.random() < 0.5:
                        return "(v %d)" % r.choice(ints)[0]
                    return str(r.choice(SMALL + [127, 128, 32767, 2147483647, -2147483648]))
                return "(cond %s %s %s)" % (c, br(), br())
            benv = env
            if self.o.avoid_ternary_multidim:      # finding C01-ternary-multidim-segv
                benv = dict(env)
                benv["arrays"] = [a for a in env["arrays"] if len(a[2]) == 1]
            return "(cond %s %s %s)" % (c, self.expr(benv, d - 1, calls), self.expr(benv, d - 1, calls))
        if k < 0.88 and calls and self.funcs and env.get("calls_ok", True):
            f = r.choice([f for f in self.funcs if f[0] in env.get("callable", [x[0] for x in self.funcs]) and f[0] not in self.void_funcs] or [None])
            if f is None:
                return self.leaf(env)
            fid, ptys, ndef = f
            n = len(ptys) - (r.randint(0, ndef) if ndef else 0)
            self.feats.add("call")
            args = [self.expr(env, d - 1, calls) for _ in range(n)]
            if fid in self.rec_funcs:       # bounded depth (deep recursion overflows the C++ stack: finding C10-deep-recursion)
                args[0] = "(bin %% %s 40)" % args[0]
            return "(call %d %s)" % (fid, " ".join(args))
        if env["arrays"] and k < 0.97:
            a = r.choice(env["arrays"])
            self.feats.add("index%d" % len(a[2]))
            return "(idx %d %s)" % (a[0], self.indices(env, a[2], d - 1))
        return self.leaf(env)

    # ---------------------------------------------------------------- statements
    def stmts(self, env, depth, n, inloop=False, infunc=None):
        r = self.r
        out = []
        env = {"scalars": list(env["scalars"]), "arrays": list(env["arrays"]), "ro": set(env["ro"]),
               "callable": env.get("callable", []), "calls_ok": env.get("calls_ok", True), "structs": env.get("structs", [])}
        for _ in range(n):
            k = r.random()
            writable = [v for v in env["scalars"] if v[0] not in env["ro"] and (not self.safe_mode or v[1] == "long")]
            if k < 0.22 or not env["scalars"]:
                t = "long" if self.safe_mode else r.choice(TYPES)
                x = self.var()
                cst = r.random() < 0.12
                out.append("(decl %d 0 %s %d %s)" % (cst, t, x, self.ret_expr(env, self.o.expr_depth)))
                env["scalars"].append((x, t))
                if cst:
                    env["ro"].add(x)
                self.feats.add("decl-" + t)
            elif k < 0.36 and writable:
                v = r.choice(writable)
                out.append("(asg (v %d) %s)" % (v[0], self.ret_expr(env, self.o.expr_depth)))
            elif k < 0.46 and writable:
                v = r.choice(writable)
                op = r.choice(["+", "-", "&", "|", "^"] if self.safe_mode else ARITH[:8])
                self.feats.add("compound")
                out.append("(casg %s (v %d) %s)" % (op, v[0], self.expr(env, 2)))
            elif k < 0.50 and writable and not self.o.avoid_incdec_limit:
                v = r.choice(writable)
                out.append("(incdec %d %d (v %d))" % (r.randint(0, 1), r.randint(0, 1), v[0]))
            elif k < 0.62:
                out.append(self.println(env, r.randint(1, 3)))
            elif k < 0.70 and depth > 0:
                self.feats.add("if")
                out.append("(if %s (%s) (%s))" % (self.expr(env, 2), " ".join(self.stmts(env, depth - 1, r.randint(1, 3), inloop, infunc)),
                                                 " ".join(self.stmts(env, depth - 1, r.randint(0, 2), inloop, infunc))))
            elif k < 0.77 and depth > 0:
                self.feats.add("for")
                i = self.var()
                env2 = dict(env); env2["scalars"] = env["scalars"] + [(i, "int")]; env2["ro"] = env["ro"] | {i}
                body = self.stmts(env2, depth - 1, r.randint(1, 3), True, infunc)
                upd = "(incdec %d 1 (v %d))" % (r.randint(0, 1), i) if r.random() < 0.6 else "(casg + (v %d) %d)" % (i, r.choice([1, 2]))
                if r.random() < 0.3:
                    upd = "(asg (v %d) (bin + (v %d) 1))" % (i, i)
                out.append("(for ((decl 0 0 int %d 0)) (bin < (v %d) %d) (%s) (%s))" % (i, i, r.randint(0, 4), upd, " ".join(body)))
            elif k < 0.82 and depth > 0:
                self.feats.add("while")
                i = self.var()
                env2 = dict(env); env2["scalars"] = env["scalars"] + [(i, "int")]; env2["ro"] = env["ro"] | {i}
                body = self.stmts(env2, depth - 1, r.randint(0, 2), False, infunc)   # no continue inside: it would skip the counter
                out.append("(decl 0 0 int %d 0)" % i)
                env["scalars"].append((i, "int")); env["ro"].add(i)
                out.append("(while (bin < (v %d) %d) (%s (asg (v %d) (bin + (v %d) 1))))" % (i, r.randint(0, 4), " ".join(body), i, i))
            elif k < 0.87 and inloop:
                self.feats.add("break/continue")
                out.append("(if %s ((%s)) ())" % (self.expr(env, 1, calls=False), r.choice(["break", "continue"])))
            elif k < 0.93 and env["arrays"]:
                a = r.choice([x for x in env["arrays"]])
                if a[3] or (self.safe_mode and a[1] != "long"):
                    continue
                idx = self.indices(env, a[2], 1)
                if self.o.avoid_elem_rhs:
                    rhs = self.ret_expr(env, 2, calls=False)
                    if rhs.startswith("(cond"):
                        rhs = "(bin + %s 0)" % rhs
                elif a[0] in self.member_arrays:
                    # `s.m[i] = f();` calls f twice (the look-ahead of fix df79998 covers plain arrays only): finding C03-member-elem-call-twice
                    rhs = self.ret_expr(env, 2, calls=False)
                else:
                    rhs = self.expr(env, 2)
                if r.random() < 0.25 and len(a[2]) == 1 and a[0] not in self.member_arrays:
                    i0 = str(r.randint(0, a[2][0] - 1))
                    self.feats.add("elem-compound")
                    out.append("(casg %s (idx %d %s) %s)" % (r.choice(["+", "-", "*", "&", "|", "^"]), a[0], i0, rhs))
                else:
                    self.feats.add("elem-assign")
                    out.append("(asg (idx %d %s) %s)" % (a[0], idx, rhs))
            elif k < 0.96 and infunc is not None and r.random() < 0.5:
                out.append("(if %s ((ret %s)) ())" % (self.expr(env, 1, calls=False), self.ret_expr(env, 2)))
            elif depth > 0 and r.random() < 0.3:
                out.append("(block %s)" % " ".join(self.stmts(env, depth - 1, r.randint(1, 2), inloop, infunc)))
            elif len(env.get("structs", [])) >= 2 and r.random() < 0.5:
                a = r.choice(env["structs"])
                same = [b for b in env["structs"] if b[1] == a[1] and b[0] != a[0]]
                if same:
                    self.feats.add("struct-copy")
                    out.append("(copy %d %d %s)" % (a[0], r.choice(same)[0], a[2]))
                else:
                    out.append(self.println(env, 1))
            elif self.o.extras and r.random() < 0.8:
                out.append(self.extra_stmt(env, writable, infunc))
            else:
                out.append(self.println(env, 1))
        return out

    def extra_stmt(self, env, writable, infunc):
        """forms beyond the first generator (Opts.extras)"""
        r = self.r
        k = r.random()
        # (++/-- on an element of a multi-dimensional array is rejected: finding C01-compound-elem-index)
        arrs = [a for a in env["arrays"] if not a[3] and not (self.safe_mode and a[1] != "long") and len(a[2]) == 1
                and a[0] not in self.member_arrays]
        if k < 0.25 and arrs:
            a = r.choice(arrs)
            self.feats.add("elem-incdec")
            return "(incdec %d %d (idx %d %s))" % (r.randint(0, 1), r.randint(0, 1), a[0], self.indices(env, a[2], 1))
        if k < 0.45 and writable and not self.safe_mode:
            v = r.choice(writable)
            self.feats.add("shift-compound")
            return "(casg %s (v %d) %s)" % (r.choice(["<<", ">>"]), v[0], r.choice(["0", "1", "2", "3", "7", "31", "62", "63", self.expr(env, 1, calls=False)]))
        if k < 0.65 and self.funcs and env.get("calls_ok", True):
            cands = [f for f in self.funcs if f[0] in env.get("callable", []) and f[0] not in self.rec_funcs]
            if cands:
                fid, ptys, ndef = r.choice(cands)
                n = len(ptys) - (r.randint(0, ndef) if ndef else 0)
                self.feats.add("call-stmt")
                return "(expr (call %d %s))" % (fid, " ".join(self.expr(env, 2, calls=False) for _ in range(n)))
        if k < 0.80 and infunc is not None and not self.safe_mode:
            # a static local: initialised once, updated and printed on every activation.  It is not added to the scalars in
            # scope: a call argument that mentions the caller's static is evaluated in the callee (finding C08-args-in-callee-scope)
            x = self.var()
            t = r.choice(["int", "long", "short", "tiny"])
            self.feats.add("static")
            return "(block (decl 0 1 %s %d %s) (casg %s (v %d) %s) (print 1 (v %d)))" % (
                t, x, r.choice(SMALL), r.choice(["+", "-", "*"]), x, r.choice(["1", "2", "3", "7", "100"]), x)
        self.feats.add("print-no-nl")
        return "(print 0 %s)" % " ".join(self.expr(env, 2, calls=False) for _ in range(r.randint(1, 2)))

    def println(self, env, n):
        if not self.o.avoid_print_retry:
            return "(print 1 %s)" % " ".join(self.expr(env, self.o.expr_depth) for _ in range(n))
        # println re-evaluates an argument whose evaluation failed: either no calls at all, or an
        # argument that cannot fail calling functions that cannot fail
        args = []
        for _ in range(n):
            if self.r.random() < 0.5:
                args.append(self.expr(env, self.o.expr_depth, calls=False))
            else:
                penv = dict(env)
                penv["callable"] = [f for f in env.get("callable", []) if f in self.safe_funcs]
                old = self.safe_mode
                self.safe_mode = True
                args.append(self.expr(penv, self.o.expr_depth))
                self.safe_mode = old
        return "(print 1 %s)" % " ".join(args)

    def ret_expr(self, env, d, calls=True):
        """an expression whose value is stored or returned as a whole: a bare multi-dimensional element
        loses the range check of the store (finding C04-bare-multidim-element)"""
        e = self.expr(env, d, calls)
        if self.o.avoid_assign_top_ternary and e.startswith("(cond"):   # finding C01-ternary-assign-bool-branch
            # the finding concerns only a BRANCH whose type is inferred bool although its value is not 0/1: unary - / ~ over a
            # bool-typed operand, or a nested ?: (probed on the binary); such a branch gets `+ 0`, the statement stays a
            # top-level ternary store (execute_ternary_assignment), which the earlier blanket rule `(cond ..) + 0` never reached
            c, a, b = sexp_items(e)[1:4]
            fix = lambda x: "(bin + %s 0)" % x if x.startswith("(un -") or x.startswith("(un ~") or x.startswith("(cond") else x
            e = "(cond %s %s %s)" % (c, fix(a), fix(b))
            self.feats.add("top-ternary-store")
        if self.o.avoid_return_elem and e.startswith("(idx"):
            e = "(bin + %s 0)" % e
        return e

    def array_decl(self, r, local=True):
        x = self.var()
        nd = r.choice([1, 1, 1, 2, 2, 3])
        dims = [r.randint(1, 4) for _ in range(nd)]
        t = r.choice(["int", "long", "long", "short", "tiny"])
        if nd > 1 and self.o.avoid_multidim_narrow:
            t = "long"
        size = 1
        for d in dims:
            size *= d
        init = []
        if r.random() < 0.5:
            lo, hi = RANGES[t]
            init = [str(r.choice([0, 1, -1, lo, hi, r.randint(max(lo, -1000), min(hi, 1000))])) for _ in range(size)]
        return x, t, dims, init

    def program(self):
        r = self.r
        o = self.o
        genv = {"scalars": [], "arrays": [], "ro": set(), "callable": []}
        globs = []
        for _ in range(r.randint(0, 3)):
            t = r.choice(["int", "long", "long", "short", "tiny", "uint"])
            x = self.var()
            cst = r.random() < 0.15
            lo, hi = RANGES[t]
            v = r.choice([0, 1, 5, -7, 1000, lo, hi]) if t != "uint" else r.choice([0, 1, 5, hi])
            v = max(lo, min(hi, v))
            globs.append("(G %d %s %d () (%d))" % (cst, t, x, v))
            genv["scalars"].append((x, t))
            if cst:
                genv["ro"].add(x)
        if o.arrays:
            for _ in range(r.randint(0, 2)):
                x, t, dims, init = self.array_decl(r, local=False)
                cst = bool(init) and r.random() < 0.1
                globs.append("(G %d %s %d (%s) (%s))" % (cst, t, x, " ".join(map(str, dims)), " ".join(init)))
                genv["arrays"].append((x, t, dims, cst))
        funcs = []
        for _ in range(r.randint(0, o.funcs)):
            self.nf += 1
            fid = self.nf
            ps = []
            ndef = 0
            npar = r.randint(0, 3)
            safe = r.random() < 0.5
            self.safe_mode = safe
            for j in range(npar):
                t = r.choice(["long", "long", "int", "int", "short", "tiny"])
                d = None
                if safe:
                    t = "long"
                if j >= npar - 1 and r.random() < 0.3 or (ps and ps[-1][2] is not None):
                    d = str(r.choice(SMALL)); ndef += 1
                ps.append((self.var(), t, d))
            env = {"scalars": genv["scalars"] + [(p[0], p[1]) for p in ps], "arrays": genv["arrays"], "ro": set(genv["ro"]),
                   "callable": [f[0] for f in self.funcs if (not safe or f[0] in self.safe_funcs)]}
            rty = "long"
            if o.extras and not safe:
                rty = r.choice(["long", "long", "int", "short", "tiny", "uint", "void"])
                self.feats.add("ret-" + rty)
            if rty == "void":
                body = self.stmts(env, 1, r.randint(1, 3), False, infunc=None)
                body.append("(ret)" if r.random() < 0.5 else self.println(env, 1))
                self.void_funcs.add(fid)
            else:
                body = self.stmts(env, 1, r.randint(1, 3), False, infunc=fid)
                body.append("(ret %s)" % self.ret_expr(env, 2))
            funcs.append("(F %d %s (%s) (%s))" % (fid, rty, " ".join("(%d %s%s)" % (p[0], p[1], "" if p[2] is None else " " + p[2]) for p in ps), " ".join(body)))
            self.funcs.append((fid, [p[1] for p in ps], ndef))
            if safe:
                self.safe_funcs.add(fid)
            self.safe_mode = False
        if r.random() < 0.25:
            # a directly recursive function with a decreasing first argument
            self.nf += 1
            fid = self.nf
            n, acc = self.var(), self.var()
            self.feats.add("recursion")
            # (arguments are evaluated after earlier parameters are rebound - finding C08-args-in-callee-scope -
            #  so the later argument does not mention the earlier parameter)
            funcs.append("(F %d long ((%d long) (%d long)) ((if (bin <= (v %d) 0) ((ret (v %d))) ()) (ret (bin + (call %d (bin - (v %d) 1) (v %d)) (v %d)))))"
                         % (fid, n, acc, n, acc, fid, n, acc, n))
            self.funcs.append((fid, ["long", "long"], 0))
            self.rec_funcs.add(fid)
        menv = {"scalars": list(genv["scalars"]), "arrays": list(genv["arrays"]), "ro": set(genv["ro"]),
                "callable": [f[0] for f in self.funcs]}
        main = []
        sdefs = []
        if o.structs:
            # plain structs: member j of struct variable x is the scalar cell 1000 + 8*x + j (Lang.Syntax.mkey), written `(v <cell>)`
            self.feats.add("struct")
            for sn in range(1, r.randint(1, 2) + 1):
                # a member is a scalar `ty` or an array `(ty d ..)`; the first one is a long scalar
                flds = [("long", [])]
                for _ in range(r.randint(0, 3)):
                    t = r.choice(["long", "long", "int", "short", "tiny", "uint"])
                    dims = [] if r.random() < 0.7 or not o.arrays else [r.randint(1, 3) for _ in range(r.choice([1, 1, 2]))]
                    flds.append((t, dims))
                sdefs.append((sn, flds))
            fld_s = lambda flds: " ".join(t if not d else "(%s %s)" % (t, " ".join(map(str, d))) for t, d in flds)
            menv["structs"] = []
            for _ in range(r.randint(1, 3)):
                sn, flds = r.choice(sdefs)
                x = self.var()
                main.append("(struct %d %d %s)" % (sn, x, fld_s(flds)))
                menv["structs"].append((x, sn, fld_s(flds)))
                for j, (t, dims) in enumerate(flds):
                    cell = 1000 + 8 * x + j
                    if dims:
                        menv["arrays"].append((cell, t, dims, False))
                        self.member_arrays.add(cell)
                        self.feats.add("struct-array-member")
                        continue
                    menv["scalars"].append((cell, t))
                    if t != "long":
                        # (stores into narrow members are range checked since fix a3f0b3d: they are ordinary targets now)
                        lo, hi = RANGES[t]
                        main.append("(asg (v %d) %d)" % (cell, r.choice([lo, hi, 0, 1, r.randint(lo, hi)])))
        if o.arrays:
            for _ in range(r.randint(0, 2)):
                x, t, dims, init = self.array_decl(r)
                main.append("(arr 0 %s %d (%s) (%s))" % (t, x, " ".join(map(str, dims)), " ".join(init)))
                menv["arrays"].append((x, t, dims, False))
        main += self.stmts(menv, o.max_depth, r.randint(3, o.max_stmts))
        return "(P (%s) (%s) (%s))" % (" ".join(globs), " ".join(funcs), " ".join(main))
