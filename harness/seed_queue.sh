#!/bin/bash
# seed_queue.sh : evaluate finished seeds under /var/tmp/seed one after the other (harness/eval_seed.py); stops when .cache/seedq.stop exists
cd "$(dirname "$0")/.."
mkdir -p .cache/logs
while [ ! -e .cache/seedq.stop ]; do
  did=0
  for d in /var/tmp/seed/*/; do
    n="$(basename "$d")"
    [ -f "$d/SEED/meta.json" ] && [ -f "$d/SEED/patch.diff" ] || continue
    [ -e ".cache/seedq.running.$n" ] && continue
    [ -e ".cache/seedq.hold.$n" ] && continue
    touch ".cache/seedq.running.$n"
    python3 harness/eval_seed.py "$d" "$n" > ".cache/logs/seed-$n.log" 2>&1
    echo "$(date +%H:%M) $n done: $(tr -d '\n' < .cache/logs/seed-$n.log | tail -c 400)" >> .cache/logs/seedq.log
    did=1
  done
  [ $did = 0 ] && sleep 30
done
