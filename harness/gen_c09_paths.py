"""C09 - access paths into nested objects: rendering of the scripts of coq/C09/Paths.v as Cb programs and the judgement of
the implementation's run against the extracted verdicts.

A pscript (text format: ocaml/c09_driver.ml) declares variables whose values are TREES (struct / array / scalar, any
nesting; `const` on the variable and on struct members) and stores through access paths: `S x:path form u` (scalar cell:
=, op=, ++/--) and `B x:path lit tree` (whole-sub-object store from a struct variable / a literal).  The Cb struct types
are synthesised from the shapes (members m0, m1 ...).  One script can be rendered in several ways - that is where the
dimensions the machine does not have are enumerated:
  way     how a variable comes to be (and to be const): lit (initialised by a literal), copy (initialised from another
          variable), noinit (declared without initialiser), param (by-value parameter of a callee in which everything
          happens), global, gcallee (global, the stores are made in a callee), static (static local of a callee)
  lt      the type of the scalar cells (int, long, short, string, double, bool ...)
  rhs     the right-hand side of `=`: literal, variable, expression, function call
  inc     x++ / ++x
  obs_before  whether the cells are read (printed) before the first store
  subsrc  the source of a whole-sub-object store that is not a literal: var (struct variable), elem (another element of the
          same array), call (a function result)
"""

# ---------------------------------------------------------------------------------------------------- trees
def parse_tree(s):
    pos = [0]

    def tree():
        c = s[pos[0]]
        if c == "L":
            pos[0] += 1
            st = pos[0]
            if s[pos[0]] == "-":
                pos[0] += 1
            while pos[0] < len(s) and s[pos[0]].isdigit():
                pos[0] += 1
            return ("L", int(s[st:pos[0]]))
        if c in "RA":
            pos[0] += 2
            kids = []
            while s[pos[0]] != ")":
                fl = s[pos[0]] == "1"
                pos[0] += 1
                kids.append((fl, tree()))
                if s[pos[0]] == ",":
                    pos[0] += 1
            pos[0] += 1
            return (c, kids)
        raise ValueError("tree: %r at %d" % (s, pos[0]))
    t = tree()
    if pos[0] != len(s):
        raise ValueError("tree: trailing input in %r" % s)
    return t


def tree_text(t):
    if t[0] == "L":
        return "L%d" % t[1]
    return "%s(%s)" % (t[0], ",".join(("1" if c else "0") + tree_text(k) for c, k in t[1]))


def leaf_paths(t):
    if t[0] == "L":
        return [()]
    out = []
    for i, (_, k) in enumerate(t[1]):
        out += [(i,) + p for p in leaf_paths(k)]
    return out


def node_paths(t):
    if t[0] == "L":
        return []
    out = [()]
    for i, (_, k) in enumerate(t[1]):
        out += [(i,) + p for p in node_paths(k)]
    return out


def get(t, p):
    for i in p:
        if t[0] == "L" or i >= len(t[1]):
            return None
        t = t[1][i][1]
    return t


def steps(t, p):
    st = []
    for i in p:
        st.append(t[0] == "A")
        t = t[1][i][1]
    return st


def edges(t, p):
    es = []
    for i in p:
        es.append(t[1][i][0])
        t = t[1][i][1]
    return es


def has_const(t):
    return t[0] != "L" and any(c or has_const(k) for c, k in t[1])


def readable(st):
    """can the implementation READ a cell with these steps (println)?  Not when a subscript comes after two or more steps
    (c.in.a[i], c.in.items[i].n: "Member array element not found" / "not a struct")."""
    return not any(st[2:])


def path_text(var, t, p, ty=None):
    """member names are unique over all struct types (m<type>_<index>): the implementation's resolver of nested paths
    confuses members of the same name at different levels ("Parent member not found") - not a const matter"""
    s = var
    for i in p:
        if t[0] == "A":
            s += "[%d]" % i
        else:
            s += ".%s" % (ty.member(t, i) if ty is not None else "m%d" % i)
        t = t[1][i][1]
    return s


# ---------------------------------------------------------------------------------------------------- scripts
def parse_pscript(line):
    vs, ops = line.split("|")
    vars_ = []
    for it in [x.strip() for x in vs.split(";") if x.strip()]:
        c, t = it.split()
        vars_.append({"const": c == "1", "tree": parse_tree(t)})
    out = []
    for it in [x.strip() for x in ops.split(";") if x.strip()]:
        w = it.split()
        x, p = w[1].split(":")
        path = () if p == "-" else tuple(int(k) for k in p.split("."))
        if w[0] == "S":
            out.append({"k": "S", "x": int(x), "p": path, "f": w[2], "u": int(w[3])})
        else:
            out.append({"k": "B", "x": int(x), "p": path, "lit": w[2] == "1", "src": parse_tree(w[3])})
    return vars_, out


def pscript_text(vars_, ops):
    def pt(p):
        return ".".join(map(str, p)) if p else "-"
    vs = ";".join("%d %s" % (v["const"], tree_text(v["tree"])) for v in vars_)
    os_ = ";".join(("S %d:%s %s %d" % (o["x"], pt(o["p"]), o["f"], o["u"])) if o["k"] == "S" else
                   ("B %d:%s %d %s" % (o["x"], pt(o["p"]), o["lit"], tree_text(o["src"]))) for o in ops)
    return vs + "|" + os_


def parse_prun_output(text):
    """-> list of dicts {spec:(outcome,[snaps]), mech:..., free:..., obs:..., init:snap, exec:[bool per op]}"""
    res, cur = [], {}
    for l in text.split("\n"):
        w = l.split(" ")
        if w[0] in ("PSPEC", "PMECH", "PFREE", "POBS"):
            cur[w[0][1:].lower()] = (w[1], w[2:])
        elif w[0] == "PINFO":
            cur["init"] = w[1]
            cur["exec"] = [c == "1" for c in (w[2] if len(w) > 2 else "")]
            res.append(cur)
            cur = {}
        elif w[0] == "ERROR":
            res.append({"error": l})
            cur = {}
    return res


def snap_cells(snap):
    return [[int(v) for v in part.split(",")] if part else [] for part in snap.split("/")]


# ---------------------------------------------------------------------------------------------------- values by scalar type
LEAF_TYPES = ["int", "long", "short", "string", "double", "bool", "char", "unsigned int", "float", "tiny"]
ARITH_TYPES = ["int", "long", "short"]


def vlit(z, lt):
    if lt == "string":
        return '"s%d"' % z
    if lt in ("double", "float"):
        return "%d.0" % z          # (whole numbers: array cells of floating type lose the fraction - not a const matter)
    if lt == "bool":
        return "true" if z % 2 else "false"
    if lt == "char":
        return "'%s'" % chr(ord("A") + z % 26)
    if lt == "tiny":
        return str(z % 100)
    return str(z)


# ---------------------------------------------------------------------------------------------------- rendering
WAYS = ["lit", "copy", "noinit", "param", "global", "gcallee", "static"]
EXACT_WAYS = ("lit", "global", "gcallee", "static")
RHS_KINDS = ["lit", "var", "expr", "call"]


class PRenderError(Exception):
    pass


class _Types:
    def __init__(self, lt):
        self.lt = lt
        self.defs = []
        self.keys = {}

    def of(self, t):
        """-> (base type name, dims text)"""
        if t[0] == "L":
            return (self.lt, "")
        if t[0] == "A":
            b, d = self.of(t[1][0][1])
            return (b, "[%d]" % len(t[1]) + d)
        key = tuple((c, self.of(k)) for c, k in t[1])
        if key not in self.keys:
            name = "T%d" % len(self.keys)
            self.keys[key] = name
            ms = " ".join("%s%s%s m%s_%d;" % ("const " if c else "", b, d, name[1:], i) for i, (c, (b, d)) in enumerate(key))
            self.defs.append("struct %s { %s };" % (name, ms))
        return (self.keys[key], "")

    def member(self, t, i):
        return "m%s_%d" % (self.of(t)[0][1:], i)

    def decl(self, t):
        b, d = self.of(t)
        return b + d

    def lit(self, t):
        if t[0] == "L":
            return vlit(t[1], self.lt)
        if t[0] == "A":
            return "[" + ", ".join(self.lit(k) for _, k in t[1]) + "]"
        return "{" + ", ".join(self.lit(k) for _, k in t[1]) + "}"


def with_flags(sub, src):
    """the values of src in the shape and with the member flags of sub (a source variable has the target's TYPE)"""
    if sub[0] == "L" or src[0] == "L" or sub[0] != src[0] or len(sub[1]) != len(src[1]):
        return src
    return (sub[0], [(c, with_flags(k, k2)) for (c, k), (_, k2) in zip(sub[1], src[1])])


def _struct_array(t):
    return t[0] == "A" and t[1] and t[1][0][1][0] != "L"


def render_pscript(line, opts=None):
    """-> (program text, plan).  opts: ways (list, one per variable, or one string for all), lt, rhs, inc ("post"/"pre"),
    obs_before (bool).  plan: views (list of (var, leaf path) printed by each observation), ops (per op: kind, the view
    indices it may change), exact (initial values are those of the script), nops."""
    opts = dict(opts or {})
    vars_, ops = parse_pscript(line)
    ways = opts.get("ways", "lit")
    if isinstance(ways, str):
        ways = [ways] * len(vars_)
    lt = opts.get("lt", "int")
    rhs = opts.get("rhs", "lit")
    inc = opts.get("inc", "post")
    obs_before = opts.get("obs_before", True)
    ty = _Types(lt)
    # where does everything happen?
    if any(w == "gcallee" for w in ways):
        if not all(w == "gcallee" for w in ways):
            raise PRenderError("gcallee needs every variable global")
        place = "gcallee"
    elif any(w in ("param", "static") for w in ways):
        place = "callee"
    else:
        place = "main"
    gl, main_pre, body, params, args = [], [], [], [], []
    exact = True
    for j, (v, w) in enumerate(zip(vars_, ways)):
        t = v["tree"]
        q = "const " if v["const"] else ""
        d = ty.decl(t)
        name = "x%d" % j
        sa = _struct_array(t) or (t[0] == "A" and t[1][0][1][0] == "A")
        if w in ("lit", "global", "gcallee", "static") and sa:
            # a struct array cannot be initialised by a literal: filled element by element when it is not const,
            # declared without initialiser (all cells 0) when it is
            tgt = gl if w in ("global", "gcallee") else body
            if w in ("global", "gcallee", "static"):
                raise PRenderError("struct arrays are rendered as locals / parameters only")
            if v["const"] or t[1][0][1][0] == "A":
                tgt.append("%s%s %s;" % (q, d, name))
                exact = False
            else:
                tgt.append("%s %s;" % (d, name))
                for i, (_, k) in enumerate(t[1]):
                    tgt.append("%s[%d] = %s;" % (name, i, ty.lit(k)))
        elif w == "lit":
            body.append("%s%s %s = %s;" % (q, d, name, ty.lit(t)))
        elif w == "copy":
            if sa:
                raise PRenderError("copy of a struct array")
            body.append("%s s%d = %s;" % (d, j, ty.lit(t)))
            body.append("%s%s %s = s%d;" % (q, d, name, j))
            exact = False
        elif w == "noinit":
            body.append("%s%s %s;" % (q, d, name))
            exact = False
        elif w == "param":
            if sa and t[1][0][1][0] != "A":
                main_pre.append("%s s%d;" % (d, j))
                for i, (_, k) in enumerate(t[1]):
                    main_pre.append("s%d[%d] = %s;" % (j, i, ty.lit(k)))
            elif sa:
                main_pre.append("%s s%d;" % (d, j))
            else:
                main_pre.append("%s s%d = %s;" % (d, j, ty.lit(t)))
            params.append("%s%s %s" % (q, d, name))
            args.append("s%d" % j)
            exact = False
        elif w in ("global", "gcallee"):
            gl.append("%s%s %s = %s;" % (q, d, name, ty.lit(t)))
        elif w == "static":
            body.append("static %s%s %s = %s;" % (q, d, name, ty.lit(t)))
        else:
            raise ValueError(w)
    # what an observation prints
    view = []
    for j, v in enumerate(vars_):
        for p in leaf_paths(v["tree"]):
            if readable(steps(v["tree"], p)):
                view.append((j, p))
    vidx = {c: i for i, c in enumerate(view)}
    # (the struct types are registered by the declarations above; the literal texts below add no new ones)
    obs = ("println(%s);" % ", ".join(path_text("x%d" % j, vars_[j]["tree"], p, ty) for j, p in view)) if view else 'println("-");'
    pre = []
    helper = False
    stmts = []          # the statements of the ops, each followed by an observation
    plan_ops = []
    for i, o in enumerate(ops):
        t = vars_[o["x"]]["tree"]
        target = path_text("x%d" % o["x"], t, o["p"], ty)
        if o["k"] == "S":
            u = o["u"]
            if o["f"] == "s":
                if rhs == "lit":
                    r = vlit(u, lt)
                elif rhs == "var":
                    body.append("%s u%d = %s;" % (lt, i, vlit(u, lt)))
                    r = "u%d" % i
                elif rhs == "expr":
                    if lt not in ARITH_TYPES:
                        raise PRenderError("expression operand of a non-arithmetic cell")
                    body.append("%s u%d = %d;" % (lt, i, u - 1))
                    r = "u%d + 1" % i
                else:
                    if lt not in ARITH_TYPES:
                        raise PRenderError("call operand of a non-arithmetic cell")
                    helper = True
                    r = "idf(%d)" % u
                st = "%s = %s;" % (target, r)
            elif o["f"] == "o":
                if lt not in ARITH_TYPES:
                    raise PRenderError("op= on a non-arithmetic cell")
                st = "%s %s= %d;" % (target, "+" if u >= 0 else "-", abs(u))
            else:
                if lt not in ARITH_TYPES:
                    raise PRenderError("++ on a non-arithmetic cell")
                op = "++" if u >= 0 else "--"
                st = (target + op + ";") if inc == "post" else (op + target + ";")
            c = (o["x"], o["p"])
            plan_ops.append({"k": "S", "f": o["f"], "u": u, "cell": vidx.get(c), "lt": lt})
        else:
            src = with_flags(get(t, o["p"]), o["src"])
            if o["lit"]:
                st = "%s = %s;" % (target, ty.lit(src))
            else:
                # the source that is not a literal: a struct variable, another element of the same array, a function result
                ss = opts.get("subsrc", "var")
                par = get(t, o["p"][:-1]) if o["p"] else None
                if ss == "elem" and par is not None and par[0] == "A" and len(par[1]) >= 2:
                    other = (o["p"][-1] + 1) % len(par[1])
                    st = "%s = %s;" % (target, path_text("x%d" % o["x"], t, o["p"][:-1] + (other,), ty))
                elif ss == "call" and src[0] == "R":
                    pre.append("%s mk%d() { %s r = %s; return r; }" % (ty.decl(src), i, ty.decl(src), ty.lit(src)))
                    st = "%s = mk%d();" % (target, i)
                else:
                    if _struct_array(src):
                        body.append("%s t%d;" % (ty.decl(src), i))
                        for k, (_, e) in enumerate(src[1]):
                            body.append("t%d[%d] = %s;" % (i, k, ty.lit(e)))
                    else:
                        body.append("%s t%d = %s;" % (ty.decl(src), i, ty.lit(src)))
                    st = "%s = t%d;" % (target, i)
            sub = get(t, o["p"])
            cs = [vidx[(o["x"], o["p"] + q)] for q in leaf_paths(sub) if (o["x"], o["p"] + q) in vidx]
            newv = {vidx[(o["x"], o["p"] + q)]: get(src, q)[1] for q in leaf_paths(sub)
                    if (o["x"], o["p"] + q) in vidx and get(src, q) is not None and get(src, q)[0] == "L"}
            plan_ops.append({"k": "B", "cells": cs, "new": newv, "lit": o["lit"], "lt": lt})
        stmts.append(st)
    if helper:
        pre.append("int idf(int a) { return a; }")
    text = "\n".join(ty.defs + pre + gl) + "\n"

    def fn(head, lines):
        return head + " {\n" + "\n".join("  " + l for l in lines) + "\n}\n"
    seq = []
    if obs_before:
        seq.append(obs)
    for st in stmts:
        seq.append(st)
        seq.append(obs)
    if place == "main":
        text += fn("void main()", main_pre + body + seq)
    elif place == "callee":
        text += fn("void cf(%s)" % ", ".join(params), body + seq)
        text += fn("void main()", main_pre + ["cf(%s);" % ", ".join(args)])
    else:
        # the stores are made in a callee, the cells are read in main
        text += fn("void cg()", body + stmts)
        text += fn("void main()", ([obs] if obs_before else []) + ["cg();", obs])
    if lt == "string":
        exact = False          # (string array members initialised inside a struct literal read empty - not a const matter)
    return text, {"view": view, "ops": plan_ops, "exact": exact, "nops": len(ops), "obs_before": obs_before,
                  "place": place, "lt": lt, "vars": [v["const"] for v in vars_],
                  "prot": [vars_[j]["const"] or any(edges(vars_[j]["tree"], p)) for j, p in view]}


# ---------------------------------------------------------------------------------------------------- judgement
def _tok(z, lt):
    """what println prints for the scalar value z of type lt"""
    if lt == "string":
        return "s%d" % z
    if lt in ("double", "float"):
        return "%d.0" % z
    if lt == "bool":
        return "1" if z % 2 else "0"
    if lt == "char":
        return str(ord("A") + z % 26)
    if lt == "tiny":
        return str(z % 100)
    return str(z)


def _lines(out):
    ls = out.split("\n")
    if ls and ls[-1] == "":
        ls = ls[:-1]
    # a nested member of a struct that was never materialised (uninitialised struct array element) reads "(struct)"
    return [[None if w == "(struct)" else w for w in l.split(" ")] for l in ls]


def _apply(cells, op):
    """the line an accepted op leaves: list of tokens, None = any value (whole-sub-object stores copy incompletely in
    the implementation - not a const matter), plus the set of indices of which at least one must differ"""
    new = list(cells)
    must = set()
    if op["k"] == "S":
        i = op["cell"]
        if i is not None:
            if op["f"] == "s":
                new[i] = _tok(op["u"], op["lt"])
            else:
                try:
                    new[i] = str(int(cells[i]) + op["u"])
                except (ValueError, TypeError):
                    new[i] = None
            must = {i}
    else:
        # a struct VARIABLE assigned to an element copies only the element's own scalar members (not a const matter):
        # only a literal source is compared value by value
        for i in op["cells"]:
            # (array members of string / floating type are not copied faithfully by a struct literal - not a const matter)
            new[i] = _tok(op["new"][i], op["lt"]) if (op["lit"] and i in op["new"] and op["lt"] not in ("string", "double", "float")) else None
    return new, must


def judge(plan, run, rc, out, err, init=None):
    """Compare one run of the implementation with one policy's run of the model.
    run = (outcome, snaps).  -> (agrees?, detail).  The transcript the policy demands: one line per observation (start state
    when obs_before, then one per accepted op), values relative to the first line main printed when the initial values are
    not those of the script (copy / noinit / param); a refusal = exit status 1 with a message that mentions const."""
    outcome, snaps = run
    lines = _lines(out)
    nacc = len(snaps)
    rejected = outcome.startswith("rej")
    if outcome.startswith("stuck"):
        return False, "the model is stuck"
    if plan["place"] == "gcallee":
        # observations only in main: before the call and after it returned
        want = (1 if plan["obs_before"] else 0) + (0 if rejected else 1)
    else:
        want = (1 if plan["obs_before"] else 0) + nacc
    if rejected:
        if rc != 1:
            return False, "a refusal is due (%s) but main ended with status %d" % (outcome, rc)
        if "const" not in err.lower():
            return False, "main stops where a refusal is due but its message does not mention const: %s" % err.strip().split("\n")[-1][:160]
    else:
        if rc != 0:
            return False, "the script runs to its end under this policy but main ended with status %d: %s" % (rc, err.strip().split("\n")[-1][:160])
    if len(lines) != want:
        return False, "main printed %d lines, the policy demands %d" % (len(lines), want)
    n = len(plan["view"])
    for l in lines:
        if n and len(l) != n:
            return False, "an observation has %d values, %d cells are read" % (len(l), n)
    if not plan["view"]:
        return True, ""
    if plan["place"] == "gcallee":
        if not plan["obs_before"] or rejected:
            return True, ""
        cells = lines[0]
        must_all = set()
        for op in plan["ops"][:nacc]:
            cells, must = _apply(cells, op)
            must_all |= must
        for i, (e, g) in enumerate(zip(cells, lines[1])):
            if e is not None and g is not None and e != g:
                return False, "cell %d: main %s, the policy demands %s" % (i, g, e)
        return True, ""
    if not plan["obs_before"]:
        return True, ""         # nothing to relate the values to: the verdict (status, number of lines) is the comparison
    cells = lines[0]
    if plan["exact"] and init is not None and any(c is not None and c != x for c, x in zip(cells, init)):
        return False, "the start state main prints differs from the script's: %s / %s" % (" ".join(map(str, cells)), " ".join(init))
    for k in range(nacc):
        prev = cells
        cells, must = _apply(prev, plan["ops"][k])
        got = lines[1 + k]
        for i, (e, g) in enumerate(zip(cells, got)):
            if e is not None and g is not None and e != g:
                return False, "after op %d cell %d: main %s, the policy demands %s" % (k, i, g, e)
        cells = [g if g is not None else e for e, g in zip(cells, got)]
    return True, ""


def init_tokens(line, plan):
    """the first observation the SCRIPT demands (exact ways)"""
    vars_, _ = parse_pscript(line)
    return [_tok(get(vars_[j]["tree"], p)[1], plan["lt"]) for j, p in plan["view"]]


def protected_changed(plan, out):
    """did a protected cell get another value between the first and any later observation?"""
    lines = _lines(out)
    if len(lines) < 2 or not plan["view"]:
        return False
    for l in lines[1:]:
        if len(l) != len(lines[0]):
            continue
        for i, pr in enumerate(plan["prot"]):
            if pr and l[i] is not None and lines[0][i] is not None and l[i] != lines[0][i]:
                return True
    return False
