"""Runs CbCore programs (S-expressions, see ocaml/lang_driver.ml) on the extracted reference
interpreter (bin/lang_model) and on the implementation, and compares transcripts."""
import os
import re

import common

ERR_CLASS = [
    ("div0", re.compile(r"[Dd]ivision by zero|Zero division|Modulo by zero", re.I)),
    ("bounds", re.compile(r"out of bounds|index out of|Member array element not found", re.I)),
    ("range", re.compile(r"out of range|Type range error", re.I)),
    ("const", re.compile(r"const", re.I)),
    ("arity", re.compile(r"Argument count mismatch", re.I)),
    ("unbound", re.compile(r"Undefined (variable|function|array)", re.I)),
]


def classify_stderr(err):
    finals = [l for l in err.split("\n") if l.startswith("Error:")]
    if finals:
        for name, rx in ERR_CLASS:
            if rx.search(finals[-1]):
                return name
    for name, rx in ERR_CLASS:
        if rx.search(err):
            return name
    return "other"


def model_run(sexprs, fuel=4000, timeout=1800):
    """-> list of dicts {src, expect, out} in input order."""
    common.ensure_model("Lang")
    data = ("\n".join(sexprs) + "\n").encode()
    rc, o, e = common.sh([common.model_bin("Lang"), str(fuel)], input=data, timeout=timeout)
    if rc != 0:
        raise RuntimeError("lang_model failed rc=%d: %s" % (rc, e[-800:]))
    res = []
    for blk in o.split("===BEGIN\n")[1:]:
        src, rest = blk.split("===EXPECT ", 1)
        exp, rest = rest.split("\n", 1)
        out = rest.rsplit("\n===END", 1)[0]
        res.append({"src": src, "expect": exp.strip(), "out": out})
    if len(res) != len(sexprs):
        raise RuntimeError("lang_model returned %d results for %d programs" % (len(res), len(sexprs)))
    return res


def impl_run(impl_dir, srcs, timeout=10, env=None, max_timeouts=24):
    """Runs every program; once more than `max_timeouts` runs have hit the time limit the remaining
    ones get a 1 s limit (a hanging implementation must not stall the check)."""
    state = {"n": 0}

    def one(src):
        t = timeout if state["n"] <= max_timeouts else 1
        rc, o, e = common.run_cb(impl_dir, src, timeout=t, env=env)
        if rc == 124:
            state["n"] += 1
        return {"rc": rc, "out": o, "err": e}
    return common.pmap(one, srcs)


def compare(m, i, strict_class=True):
    """None if the implementation transcript equals the reference one, else a short reason."""
    if m["expect"] in ("undef", "nofuel"):
        return None                                   # not a well-formed program in the sense of C01
    if i["rc"] not in (0, 1):
        return "implementation ended with status %d" % i["rc"]
    if i["out"] != m["out"]:
        return "stdout differs"
    if m["expect"] == "finished":
        if i["rc"] != 0:
            return "reference finishes, implementation reports an error (%s)" % classify_stderr(i["err"])
        return None
    if i["rc"] == 0:
        return "reference ends with error %s, implementation exits 0" % m["expect"]
    if strict_class:
        c = classify_stderr(i["err"])
        if c != m["expect"]:
            return "error class: reference %s, implementation %s" % (m["expect"], c)
    return None


def differential(impl_dir, sexprs, fuel=4000, strict_class=True, env=None, model_timeout=1800):
    """-> (results, mismatches) where mismatches = [(index, reason)]"""
    ms = model_run(sexprs, fuel, model_timeout)
    idx = [k for k, m in enumerate(ms) if m["expect"] not in ("undef", "nofuel")]
    irs = impl_run(impl_dir, [ms[k]["src"] for k in idx], env=env)
    res = [{"model": m, "impl": None} for m in ms]
    bad = []
    for k, ir in zip(idx, irs):
        res[k]["impl"] = ir
        why = compare(ms[k], ir, strict_class)
        if why:
            bad.append((k, why))
    return res, bad


# ------------------------------------------------------------------ S-expression helpers + shrinking
def parse(s):
    toks = s.replace("(", " ( ").replace(")", " ) ").split()
    pos = 0

    def item():
        nonlocal pos
        t = toks[pos]; pos += 1
        if t == "(":
            l = []
            while toks[pos] != ")":
                l.append(item())
            pos += 1
            return l
        return t
    return item()


def show(x):
    return x if isinstance(x, str) else "(" + " ".join(show(y) for y in x) + ")"


def _stmt_lists(node, acc):
    """collect references to all statement lists inside a program tree (lists of stmt lists)"""
    if isinstance(node, list):
        if node and node[0] == "P":
            for f in node[2]:
                acc.append(f[4])
                for s in f[4]:
                    _stmt_lists(s, acc)
            acc.append(node[3])
            for s in node[3]:
                _stmt_lists(s, acc)
        elif node and node[0] in ("if",):
            acc.append(node[2]); acc.append(node[3])
            for s in node[2] + node[3]:
                _stmt_lists(s, acc)
        elif node and node[0] == "while":
            acc.append(node[2])
            for s in node[2]:
                _stmt_lists(s, acc)
        elif node and node[0] == "for":
            acc.append(node[4])
            for s in node[4]:
                _stmt_lists(s, acc)
        elif node and node[0] == "block":
            pass


EXPR_HEADS = ("un", "bin", "and", "or", "cond", "call", "idx")


def _expr_sites(node, path, acc):
    """paths of all compound expression nodes"""
    if isinstance(node, list):
        if node and isinstance(node[0], str) and node[0] in EXPR_HEADS:
            acc.append(list(path))
        for i, c in enumerate(node):
            _expr_sites(c, path + [i], acc)


def _get(node, path):
    for i in path:
        node = node[i]
    return node


def _set(node, path, val):
    for i in path[:-1]:
        node = node[i]
    node[path[-1]] = val


def shrink_exprs(cur, still_bad, budget):
    """replace compound expressions by one of their operands or by a literal while still bad"""
    import copy
    steps = 0
    changed = True
    while changed and steps < budget:
        changed = False
        sites = []
        _expr_sites(cur, [], sites)
        for path in sites:
            node = _get(cur, path)
            if path and isinstance(_get(cur, path[:-1]), list) and _get(cur, path[:-1])[0] in ("asg", "casg", "incdec") and path[-1] == (2 if _get(cur, path[:-1])[0] == "casg" else 1) and node[0] == "idx":
                continue   # an lvalue, not an expression
            kids = [c for c in node[1:] if isinstance(c, list) and c and c[0] in EXPR_HEADS + ("v",)] + \
                   [c for c in node[1:] if isinstance(c, str) and (c.lstrip("-").isdigit()) and node[0] != "call" and node[0] != "idx"]
            for repl in kids + ["0", "1"]:
                if repl == node:
                    continue
                cand = copy.deepcopy(cur)
                _set(cand, path, copy.deepcopy(repl))
                steps += 1
                try:
                    if still_bad(show(cand)):
                        cur = cand
                        changed = True
                        break
                except Exception:
                    pass
                if steps >= budget:
                    break
            if changed or steps >= budget:
                break
    return cur


def shrink(sexpr, still_bad, budget=150):
    """Delete statements greedily while `still_bad(sexpr)` holds, then simplify expressions."""
    import copy
    cur = parse(sexpr)
    steps = 0
    changed = True
    while changed and steps < budget:
        changed = False
        lists = []
        _stmt_lists(cur, lists)
        for li, l in enumerate(lists):
            for k in range(len(l) - 1, -1, -1):
                cand = copy.deepcopy(cur)
                ls2 = []
                _stmt_lists(cand, ls2)
                del ls2[li][k]
                steps += 1
                try:
                    if still_bad(show(cand)):
                        cur = cand
                        changed = True
                        break
                except Exception:
                    pass
                if steps >= budget:
                    break
            if changed or steps >= budget:
                break
    cur = shrink_exprs(cur, still_bad, budget)
    # array initialisers
    for g in list(cur[1]):
        if len(g) == 6 and g[4] and g[5]:
            cand = copy.deepcopy(cur)
            for h in cand[1]:
                if h[3] == g[3]:
                    h[5] = []
            try:
                if still_bad(show(cand)):
                    cur = cand
            except Exception:
                pass
    return show(cur)
