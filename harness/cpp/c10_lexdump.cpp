// C10 leaf driver: the repository's own recursive_lexer.cpp behind a line protocol.
//   stdin : one case per line, the source bytes in hex (an empty line = empty source)
//   stdout: per case   "T <TokenType as int> <value in hex>" for every nextToken() result up to and
//           including the first TOK_EOF / TOK_ERROR, then "END".  If more than |source|+1 tokens
//           are delivered without EOF/ERROR the case ends with "LOOP" (lex_total_linear broken).
// With argument "one" the driver exits after the first case (used to isolate a hanging case).
#include "src/frontend/recursive_parser/recursive_lexer.h"
#include <cstdio>
#include <iostream>
#include <string>
using namespace RecursiveParserNS;
static int hv(char c) { return c <= '9' ? c - '0' : (c | 32) - 'a' + 10; }
int main(int argc, char **argv) {
    std::string l;
    while (std::getline(std::cin, l)) {
        std::string src;
        for (size_t i = 0; i + 1 < l.size(); i += 2) src.push_back((char)(hv(l[i]) * 16 + hv(l[i + 1])));
        RecursiveLexer lx(src);
        size_t n = 0;
        bool done = false;
        while (n <= src.size() + 1) {
            Token t = lx.nextToken();
            n++;
            std::printf("T %d ", (int)t.type);
            for (unsigned char c : t.value) std::printf("%02x", c);
            std::printf("\n");
            if (t.type == TokenType::TOK_EOF || t.type == TokenType::TOK_ERROR) { done = true; break; }
        }
        if (!done) std::printf("LOOP\n");
        std::printf("END\n");
        std::fflush(stdout);
        if (argc > 1) break;
    }
    return 0;
}
