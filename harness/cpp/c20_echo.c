/* c20_echo.c - prelude of the echo library used by the C20 check (harness/props/c20.py).
 *
 * The check appends, below this prelude, one function per signature it needs - the set of supported
 * signatures is re-derived from FFIManager::callFunction on every run, so the functions are generated
 * (props/c20.py: gen_echo_source), not listed here:
 *
 *   e_<r>_<ps>     for EVERY r in {i,l,d,v} and every ps over {i,l,d} of length 0..4 (484 functions;
 *                  i=int l=long d=double v=void): records its arguments, returns an asymmetric mix of
 *                  them that needs all 64 result bits (odd multipliers 3,5,7,9 per position);
 *   k<j>_<r>_<ps>  for every signature the runtime claims to support and every boundary constant j of
 *                  the return type: records its arguments, returns the constant;
 *   e_f_<ps>       float-returning functions and e_<r>_<ps with I/D> functions taking int* / double*
 *                  parameters: signatures the runtime cannot marshal (must be reported, never entered);
 *   probe          double(double): records the bits of a double held by the Cb program, returns it.
 *
 * Every call writes exactly one line to the C stdout stream:   ECHO <tag> <name> <t:hex,...|->
 * (int: 8 hex digits, long/double: 16 hex digits of the 64-bit pattern); <tag> is MODTAG so two
 * copies of the library (libecho.so / libechob.so) can be told apart. stdout is the stream the
 * interpreter's println uses, so the records appear in program order between the B <k> / E <k> lines
 * the generated program prints around call k.
 *
 * The pure meaning of these functions is Model.echo_native in coq/C20/Model.v.
 */
#include <stdint.h>
#include <stdio.h>
#include <string.h>

#ifndef MODTAG
#define MODTAG "echo"
#endif

typedef uint64_t u64;

static u64 c20_bits(double d) { u64 u; memcpy(&u, &d, 8); return u; }
static double c20_dbl(u64 u) { double d; memcpy(&d, &u, 8); return d; }

/* argument as 64-bit word: int sign-extended, long as is, double its bit pattern */
#define WI(a) ((u64)(int64_t)(a))
#define WL(a) ((u64)(a))
#define WD(a) (c20_bits(a))

#define MIXC 0x9E3779B97F4A7C15ULL

/* return conversions (Model.echo_native) */
static int c20_ret_i(u64 w) { return (int)(uint32_t)(w + (w >> 32)); }
static long c20_ret_l(u64 w) { return (long)w; }
static double c20_ret_d(u64 w) {
    if (((w >> 52) & 0x7ff) == 0x7ff && (w & 0xfffffffffffffULL) != 0) w -= (1ULL << 62); /* no NaN */
    return c20_dbl(w);
}

/* one record line per call, assembled first so it is written with a single write */
typedef struct { char buf[256]; int n; int first; } c20_rec;
static void c20_begin(c20_rec *r, const char *name) {
    r->n = snprintf(r->buf, sizeof r->buf, "ECHO %s %s ", MODTAG, name); r->first = 1;
}
static void c20_sep(c20_rec *r) { if (!r->first) r->buf[r->n++] = ','; r->first = 0; }
static void c20_i(c20_rec *r, int a) { c20_sep(r); r->n += snprintf(r->buf + r->n, sizeof r->buf - r->n, "i:%08x", (unsigned)a); }
static void c20_l(c20_rec *r, long a) { c20_sep(r); r->n += snprintf(r->buf + r->n, sizeof r->buf - r->n, "l:%016llx", (unsigned long long)a); }
static void c20_d(c20_rec *r, double a) { c20_sep(r); r->n += snprintf(r->buf + r->n, sizeof r->buf - r->n, "d:%016llx", (unsigned long long)c20_bits(a)); }
static void c20_end(c20_rec *r) {
    if (r->first) r->buf[r->n++] = '-';
    r->buf[r->n++] = '\n';
    fwrite(r->buf, 1, r->n, stdout); fflush(stdout);
}

double probe(double a) { c20_rec r; c20_begin(&r, "probe"); c20_d(&r, a); c20_end(&r); return a; }

/* ---- generated functions follow ---- */
