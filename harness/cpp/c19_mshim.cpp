// C19: LD_PRELOAD shim observing the Cb-level malloc()/free() built-ins of the interpreter.
//
// The interpreter implements the Cb built-in malloc(size) by one call to std::malloc (or calloc) in
// call_impl.cpp.  A generated program starts with `void* cal = malloc(12345); free(cal);`.  The shim
// remembers the return address of every malloc(12345) call made from the main executable itself
// (= the built-in's call site; operator new lives in libstdc++ and is never taken) and from
// then on reports
//     C19M M <addr> <size>     malloc from a calibrated site (a Cb-level allocation)
//     C19M F <addr>            free of a block obtained that way
//     C19M X <addr>            free of such a block that was already freed and has not been handed
//                              out again by the allocator since (double free); the call is dropped
// on stderr.  Everything else (the interpreter's own allocations) passes through silently.
// Built with: g++ -shared -fPIC (common.build_leaf(..., extra_flags="-shared -fPIC")).
#ifndef _GNU_SOURCE
#define _GNU_SOURCE
#endif
#include <cstddef>
#include <cstdint>
#include <cstring>
#include <dlfcn.h>
#include <unistd.h>

extern "C" {
void *__libc_malloc(size_t);
void __libc_free(void *);
void *__libc_calloc(size_t, size_t);
void *__libc_realloc(void *, size_t);
void *__libc_memalign(size_t, size_t);
}

namespace {
const size_t MAGIC = 12345;
const int MAXSITE = 8, CAP = 1 << 16;
void *sites[MAXSITE];
int nsites = 0;
void *live[CAP];
int nlive = 0;
void *dead[CAP];
int ndead = 0;

bool in_main_executable(void *ra) {     // only consulted for the rare MAGIC-sized requests
    Dl_info info;
    if (!dladdr(ra, &info) || !info.dli_fname) return false;
    size_t n = strlen(info.dli_fname);
    return n >= 5 && strcmp(info.dli_fname + n - 5, "/main") == 0;
}
bool is_site(void *ra) {
    for (int i = 0; i < nsites; i++)
        if (sites[i] == ra) return true;
    return false;
}
int find(void **a, int n, void *p) {
    for (int i = 0; i < n; i++)
        if (a[i] == p) return i;
    return -1;
}
void del(void **a, int &n, int i) { a[i] = a[--n]; }
void put_hex(char *&w, uintptr_t v) {
    char tmp[20];
    int k = 0;
    do { tmp[k++] = "0123456789abcdef"[v & 15]; v >>= 4; } while (v);
    while (k) *w++ = tmp[--k];
}
void put_dec(char *&w, size_t v) {
    char tmp[24];
    int k = 0;
    do { tmp[k++] = char('0' + v % 10); v /= 10; } while (v);
    while (k) *w++ = tmp[--k];
}
void emit(char kind, void *p, size_t size, bool with_size) {
    char buf[96];
    char *w = buf;
    memcpy(w, "C19M ", 5); w += 5;
    *w++ = kind; *w++ = ' ';
    put_hex(w, (uintptr_t)p);
    if (with_size) { *w++ = ' '; put_dec(w, size); }
    *w++ = '\n';
    ssize_t r = write(2, buf, size_t(w - buf));
    (void)r;
}
void handed_out(void *p) {       // the allocator returned p: it is no longer a dangling block
    if (ndead == 0 || p == nullptr) return;
    int i = find(dead, ndead, p);
    if (i >= 0) del(dead, ndead, i);
}
}  // namespace

// common part of malloc / calloc: calibration and reporting for the call site `ra`
static void *observed(void *p, size_t n, void *ra) {
    handed_out(p);
    if (n == MAGIC && !is_site(ra) && nsites < MAXSITE && in_main_executable(ra)) sites[nsites++] = ra;
    if (nsites && p && is_site(ra) && nlive < CAP) {
        live[nlive++] = p;
        emit('M', p, n, true);
    }
    return p;
}
extern "C" void *malloc(size_t n) {
    return observed(__libc_malloc(n), n, __builtin_return_address(0));
}
extern "C" void free(void *p) {
    if (p && nsites) {
        int i = find(live, nlive, p);
        if (i >= 0) {
            del(live, nlive, i);
            if (ndead < CAP) dead[ndead++] = p;
            emit('F', p, 0, false);
        } else if (find(dead, ndead, p) >= 0) {
            emit('X', p, 0, false);
            return;               // drop the double free so that the run can go on
        }
    }
    __libc_free(p);
}
extern "C" void *calloc(size_t a, size_t b) {      // a repaired built-in may well use calloc
    return observed(__libc_calloc(a, b), a * b, __builtin_return_address(0));
}
extern "C" void *realloc(void *q, size_t n) {
    void *p = __libc_realloc(q, n);
    handed_out(p);
    return p;
}
extern "C" void *memalign(size_t a, size_t n) {
    void *p = __libc_memalign(a, n);
    handed_out(p);
    return p;
}
extern "C" void *aligned_alloc(size_t a, size_t n) {
    void *p = __libc_memalign(a, n);
    handed_out(p);
    return p;
}
extern "C" int posix_memalign(void **out, size_t a, size_t n) {
    void *p = __libc_memalign(a, n);
    if (!p) return 12;
    handed_out(p);
    *out = p;
    return 0;
}
