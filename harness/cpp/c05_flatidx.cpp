// Leaf driver: the repository's own Variable::calculate_flat_index (core/interpreter.h) behind the
// line protocol of ocaml/c05_driver.ml:   "flat <dims> | <idxs>"  ->  "<k>" | "ERR".
// Indices are read as int64_t and converted with Variable::index_to_int exactly as every caller does
// (managers/arrays/manager.cpp:1343, evaluator/access/address_ops.cpp:170); an index that does not fit
// an int makes index_to_int throw, which is an ERR like any other rejection.
#include "src/backend/interpreter/core/interpreter.h"
#include <cstdint>
#include <iostream>
#include <sstream>
#include <string>
#include <vector>
static std::vector<long long> parse_list(const std::string &s) {
    std::vector<long long> v; std::string tok; std::istringstream is(s);
    while (std::getline(is, tok, ',')) {
        size_t a = tok.find_first_not_of(" \t"); if (a == std::string::npos) continue;
        v.push_back(std::stoll(tok.substr(a)));
    }
    return v;
}
int main() {
    std::string l;
    while (std::getline(std::cin, l)) {
        if (l.compare(0, 5, "flat ") != 0) { std::cout << "?\n"; continue; }
        std::string rest = l.substr(5); auto bar = rest.find('|');
        if (bar == std::string::npos) { std::cout << "?\n"; continue; }
        auto dims = parse_list(rest.substr(0, bar)); auto idx = parse_list(rest.substr(bar + 1));
        Variable v;
        for (auto d : dims) v.array_type_info.dimensions.push_back(ArrayDimension(static_cast<int>(d), false));
        try {
            std::vector<int> ii; for (auto i : idx) ii.push_back(Variable::index_to_int(static_cast<int64_t>(i)));
            std::cout << v.calculate_flat_index(ii) << "\n";
        }
        catch (const std::exception &) { std::cout << "ERR\n"; }
    }
    return 0;
}
