// leaf driver: links nothing else; includes the repository's error_handling.cpp so that the
// file-local classify_runtime_error / build_result_err are reachable from this translation unit.
#include "src/backend/interpreter/evaluator/operators/error_handling.cpp"
#include <iostream>
int main(int argc, char **argv) {
    std::string line;
    while (std::getline(std::cin, line)) {
        if (line.size() < 2) continue;
        bool checked = line[0] == 'C';
        std::string msg = line.substr(2);
        RuntimeErrorDescriptor d = classify_runtime_error(msg, checked);
        InferredType t;
        Variable v = build_result_err(d, t);
        std::cout << v.enum_variant << "|" << (v.has_associated_value ? 1 : 0) << "|" << v.associated_int_value << "|" << v.associated_str_value << "\n";
    }
    return 0;
}
