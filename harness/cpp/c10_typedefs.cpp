// C10 leaf driver: the repository's own RecursiveParser (all parser sources) behind a line protocol, to
// observe the DECLARATION-LEVEL TABLES the front end builds (typedef_map_, struct / enum / union /
// interface definitions) and TypeUtilityParser::resolveTypedefChain on them.
//   stdin : one case per line:  <program text in hex> <query name>,<query name>,...
//   stdout: per case
//             "ERR <first error message in hex, or ->"       parseProgram() threw / returned
//             "MAP <key>=<value in hex>;..."                 typedef_map_, sorted by key
//             "SD a,b"  "ED a,b"  "UD a,b"  "ID a,b"         keys of the definition tables, sorted (plain identifiers only)
//             "R <name> <resolveTypedefChain(name) in hex, or - for the empty string>"   per query name
//             "DC X>Y <0|1> <visited, sorted>"   per query of the form X>Y: ONE struct cycle check as parseStructDeclaration
//                                                starts it - detectCircularReference(X, Y, visited = {}, path = [X]) on the
//                                                final struct_definitions_ - its answer and the `visited` set it leaves
//           then "END".  Every case runs in a forked child under a CPU limit: a child that is killed
//           (endless loop in the table walk, stack overflow) yields "DEAD <signal>" followed by "END".
// The private members are reached by the usual test trick (private -> public for this translation unit only).
#include <algorithm>
#include <cstdio>
#include <cstring>
#include <iostream>
#include <map>
#include <memory>
#include <set>
#include <sstream>
#include <string>
#include <unordered_map>
#include <unordered_set>
#include <vector>
#include <sys/resource.h>
#include <sys/wait.h>
#include <unistd.h>
#define private public
#define protected public
#include "src/frontend/recursive_parser/recursive_parser.h"
#undef private
#undef protected

#ifdef C10_COVERAGE
extern "C" void __gcov_dump(void);
#endif
static int hv(char c) { return c <= '9' ? c - '0' : (c | 32) - 'a' + 10; }
static std::string unhex(const std::string &l) {
    std::string s;
    for (size_t i = 0; i + 1 < l.size(); i += 2) s.push_back((char)(hv(l[i]) * 16 + hv(l[i + 1])));
    return s;
}
static std::string hex(const std::string &s) {
    if (s.empty()) return "-";
    static const char *d = "0123456789abcdef";
    std::string o;
    for (unsigned char c : s) { o.push_back(d[c >> 4]); o.push_back(d[c & 15]); }
    return o;
}
static bool plain_ident(const std::string &s) {
    if (s.empty()) return false;
    for (unsigned char c : s) if (!(isalnum(c) || c == '_')) return false;
    return true;
}
template <class M> static void keys(const char *tag, const M &m) {
    std::vector<std::string> ks;
    for (const auto &p : m) if (plain_ident(p.first)) ks.push_back(p.first);
    std::sort(ks.begin(), ks.end());
    std::printf("%s ", tag);
    for (size_t i = 0; i < ks.size(); i++) std::printf("%s%s", i ? "," : "", ks[i].c_str());
    std::printf("\n");
}

static void one(const std::string &src, const std::vector<std::string> &queries) {
    // diagnostics of the parser go to stderr: silence them (only the tables are compared)
    if (!freopen("/dev/null", "w", stderr)) { }
    RecursiveParser parser(src, "t.cb");
    std::string err;
    try {
        parser.parseProgram();
    } catch (const std::exception &e) {
        err = e.what();
        if (err.empty()) err = "?";
    } catch (...) {
        err = "non-standard exception";
    }
    std::printf("ERR %s\n", hex(err).c_str());
    std::map<std::string, std::string> tm(parser.typedef_map_.begin(), parser.typedef_map_.end());
    std::printf("MAP ");
    bool first = true;
    for (const auto &p : tm) {
        std::printf("%s%s=%s", first ? "" : ";", p.first.c_str(), hex(p.second).c_str());
        first = false;
    }
    std::printf("\n");
    keys("SD", parser.struct_definitions_);
    keys("ED", parser.enum_definitions_);
    keys("UD", parser.union_definitions_);
    keys("ID", parser.interface_definitions_);
    std::fflush(stdout);
    for (const auto &q : queries) {
        size_t gt = q.find('>');
        if (gt != std::string::npos) {
            std::string x = q.substr(0, gt), y = q.substr(gt + 1);
            std::unordered_set<std::string> visited;
            std::vector<std::string> path;
            path.push_back(x);
            bool ans = parser.detectCircularReference(x, y, visited, path);
            std::vector<std::string> vs(visited.begin(), visited.end());
            std::sort(vs.begin(), vs.end());
            std::printf("DC %s %d ", q.c_str(), ans ? 1 : 0);
            if (vs.empty()) std::printf("-");
            for (size_t i = 0; i < vs.size(); i++) std::printf("%s%s", i ? "," : "", vs[i].c_str());
            std::printf("\n");
            std::fflush(stdout);
            continue;
        }
        std::string r = parser.resolveTypedefChain(q);
        std::printf("R %s %s\n", q.c_str(), hex(r).c_str());
        std::fflush(stdout);
    }
}

int main(int argc, char **argv) {
    int cpu = argc > 1 ? atoi(argv[1]) : 2;
    std::string l;
    while (std::getline(std::cin, l)) {
        size_t sp = l.find(' ');
        std::string src = unhex(sp == std::string::npos ? l : l.substr(0, sp));
        std::vector<std::string> qs;
        if (sp != std::string::npos) {
            std::stringstream ss(l.substr(sp + 1));
            std::string q;
            while (std::getline(ss, q, ',')) if (!q.empty()) qs.push_back(q);
        }
        std::fflush(stdout);
        pid_t pid = fork();
        if (pid == 0) {
            struct rlimit rl = {(rlim_t)cpu, (rlim_t)cpu + 1};
            setrlimit(RLIMIT_CPU, &rl);
            one(src, qs);
            std::fflush(stdout);
#ifdef C10_COVERAGE
            __gcov_dump();      // audit builds only (g++ --coverage -DC10_COVERAGE): line coverage of the parser sources
#endif
            _exit(0);
        }
        int st = 0;
        waitpid(pid, &st, 0);
        if (WIFSIGNALED(st)) std::printf("DEAD %d\n", WTERMSIG(st));
        else if (WEXITSTATUS(st) != 0) std::printf("DEAD exit%d\n", WEXITSTATUS(st));
        std::printf("END\n");
        std::fflush(stdout);
    }
    return 0;
}
