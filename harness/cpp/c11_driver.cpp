// C11 leaf driver: links the repository's own generic_instantiation.cpp (clone_ast_node,
// substitute_type_parameters, instantiate_generic_function, generate_cache_key) and its
// RecursiveParser, and exposes them on a line protocol shared with bin/c11_model.
//
// Tree serialisation (one line, blank-separated tokens):
//   node   ::= "(" kind nscalars { fname "=" enc }* nkids { fname node }* ")"
//   enc    ::= bytes, with every byte <= 0x20, '%', '(', ')', >= 0x7f written %XX
//   scalars are written only when they differ from a freshly constructed ASTNode(kind)
//   kids are written in the declaration order of struct ASTNode; a vector field contributes one
//   (fname node) pair per element, in order.  A null vector element is the pseudo node (9999 0 0).
//   string-vector scalars are joined with '\n' (then encoded).
//   an element of match_arms is the pseudo node (9998 ...) with scalars pattern_type / variant_name / bindings /
//   enum_type_name and at most one child "body".
//
// Commands (one per stdin line):
//   KEY <fname-enc> <n> <targ-enc>*           -> K <enc(generate_cache_key)>
//   CLONE <node>                              -> T <node>
//   SUBST <k> {<from-enc> <to-enc>}* <node>   -> T <node>          (substitute_type_parameters in place)
//   INST <n> <targ-enc>* <node>               -> T <node> | E <enc(what)>
//   PARSE <path-enc> <m> {<fname-enc> <n> <targ-enc>*}*
//        -> per request:  O <node>  then  T <node> | E <enc(what)> ;   finally "END"
//        (O = the parser's AST of the generic function, T = instantiate_generic_function on it)
//   FUNCS <path-enc>                          -> F <fname-enc> <is_generic> <node> ... END
//   DEFAULTS                                  -> D {fname "=" enc}*   (all loadable scalars of a fresh node)
#include "src/common/ast.h"
#include "src/backend/interpreter/evaluator/functions/generic_instantiation.h"
#include "src/frontend/recursive_parser/recursive_parser.h"
#include <cstdio>
#include <cstdlib>
#include <fstream>
#include <functional>
#include <iostream>
#include <map>
#include <sstream>
#include <string>
#include <vector>

#define BOOLS(X)                                                                                   \
    X(is_const) X(is_static) X(is_impl_static) X(is_array) X(is_array_return) X(is_private_method) \
    X(is_async) X(is_private_member) X(is_default_member) X(is_pointer) X(is_reference)            \
    X(is_rvalue_reference) X(is_unsigned) X(is_function_address) X(is_float_literal)               \
    X(is_pointer_array_access) X(is_exported) X(is_default_export) X(is_qualified_call)            \
    X(is_arrow_call) X(is_function_pointer) X(is_array_pointer) X(is_pointer_const_qualifier)      \
    X(is_pointee_const_qualifier) X(has_default_value) X(is_constructor) X(is_destructor)          \
    X(is_async_function) X(is_await_expression) X(is_discard) X(is_lambda) X(is_lambda_call)       \
    X(is_generic) X(is_type_parameter) X(is_type_parameter_access) X(is_interpolation_text)        \
    X(is_interpolation_expr) X(is_array_new)
#define INTS(X) X(pointer_depth) X(int_value) X(array_size) X(first_default_param_index)
#define TYPEINFOS(X)                                                                               \
    X(type_info) X(pointer_base_type) X(literal_type) X(lambda_return_type) X(cast_type_info)      \
    X(new_type_info) X(sizeof_type_info)
#define STRINGS(X)                                                                                 \
    X(pointer_base_type_name) X(function_address_name) X(literal_text) X(str_value) X(name)        \
    X(type_name) X(original_type_name) X(return_type_name) X(op) X(module_name) X(import_path)     \
    X(exception_var) X(exception_type) X(qualified_name) X(enum_name) X(enum_member) X(union_name) \
    X(interface_name) X(struct_name) X(function_pointer_value) X(constructor_struct_name)          \
    X(internal_name) X(lambda_return_type_name) X(generic_base_name) X(type_parameter_name)        \
    X(type_parameter_context) X(interpolation_format) X(cast_target_type) X(new_type_name)         \
    X(sizeof_type_name)
#define STRVECS(X) X(import_items) X(member_chain) X(type_parameters) X(type_arguments)
#define PTRS_A(X) X(left) X(right) X(third) X(condition) X(init_expr) X(update_expr) X(body)
#define VECS_A(X) X(children) X(parameters) X(arguments) X(statements)
#define PTRS_B(X) X(array_index) X(array_size_expr)
#define VECS_B(X) X(array_dimensions) X(array_indices)
#define PTRS_C(X) X(try_body) X(catch_body) X(finally_body) X(throw_expr)
#define VECS_C(X) X(impl_static_variables)
#define PTRS_D(X) X(switch_expr)
#define VECS_D(X) X(cases)
#define PTRS_E(X) X(else_body)
#define VECS_E(X) X(case_values)
#define PTRS_F(X) X(case_body) X(match_expr)
// match_arms (vector<MatchArm>, each arm owns a body) comes here in declaration order
#define PTRS_G(X) X(range_start) X(range_end) X(default_value) X(lambda_body)
#define VECS_G(X) X(lambda_params) X(interpolation_segments)
#define PTRS_H(X) X(cast_expr) X(new_array_size) X(delete_expr) X(sizeof_expr)

static std::string enc(const std::string &s) {
    std::string o = "=";
    char buf[8];
    for (unsigned char c : s) {
        if (c <= 0x20 || c == '%' || c == '(' || c == ')' || c >= 0x7f) {
            std::snprintf(buf, sizeof buf, "%%%02X", c);
            o += buf;
        } else
            o += (char)c;
    }
    return o;
}
static std::string dec(const std::string &t) {
    std::string o;
    size_t i = (!t.empty() && t[0] == '=') ? 1 : 0;
    for (; i < t.size(); i++) {
        if (t[i] == '%' && i + 2 < t.size()) {
            o += (char)std::strtol(t.substr(i + 1, 2).c_str(), nullptr, 16);
            i += 2;
        } else
            o += t[i];
    }
    return o;
}
static std::string joinv(const std::vector<std::string> &v) {
    std::string o;
    for (size_t i = 0; i < v.size(); i++) { if (i) o += "\n"; o += v[i]; }
    return o;
}
static std::vector<std::string> splitv(const std::string &s) {
    std::vector<std::string> v;
    if (s.empty()) return v;
    std::string cur;
    for (char c : s) { if (c == '\n') { v.push_back(cur); cur.clear(); } else cur += c; }
    v.push_back(cur);
    return v;
}

typedef std::vector<std::pair<std::string, std::string>> Scalars;

static Scalars scalars_of(const ASTNode *n, bool all) {
    ASTNode d(n->node_type);
    Scalars out;
#define XB(f) if (all || n->f != d.f) out.push_back({#f, n->f ? "1" : "0"});
    BOOLS(XB)
#undef XB
#define XI(f) if (all || n->f != d.f) out.push_back({#f, std::to_string((long long)n->f)});
    INTS(XI)
#undef XI
#define XT(f) if (all || n->f != d.f) out.push_back({#f, std::to_string((int)n->f)});
    TYPEINFOS(XT)
#undef XT
#define XS(f) if (all || n->f != d.f) out.push_back({#f, n->f});
    STRINGS(XS)
#undef XS
#define XV(f) if (all || n->f != d.f) out.push_back({#f, joinv(n->f)});
    STRVECS(XV)
#undef XV
    // summaries of members that are not loadable (only produced from parsed trees)
    if (all || n->double_value != d.double_value) { char b[64]; std::snprintf(b, sizeof b, "%a", n->double_value); out.push_back({"double_value", b}); }
    if (n->quad_value != d.quad_value) { char b[64]; std::snprintf(b, sizeof b, "%La", n->quad_value); out.push_back({"quad_value", b}); }
    if (!n->return_types.empty()) {
        std::string s; for (auto t : n->return_types) s += std::to_string((int)t) + ",";
        out.push_back({"return_types", s});
    }
    if (n->array_type_info.is_array() || n->array_type_info.base_type != d.array_type_info.base_type) {
        std::string s = std::to_string((int)n->array_type_info.base_type) + ":";
        for (auto &dm : n->array_type_info.dimensions) s += std::to_string(dm.size) + (dm.is_dynamic ? "d" : "s") + dm.size_expr + ",";
        out.push_back({"array_type_info", s});
    }
    if (!n->import_aliases.empty()) out.push_back({"import_aliases", std::to_string(n->import_aliases.size())});
    if (!n->enum_definition.name.empty() || !n->enum_definition.members.empty())
        out.push_back({"enum_definition", n->enum_definition.name + "#" + std::to_string(n->enum_definition.members.size())});
    if (!n->union_definition.name.empty()) out.push_back({"union_definition", n->union_definition.name});
    if (n->function_pointer_type.return_type != TYPE_UNKNOWN || !n->function_pointer_type.param_types.empty())
        out.push_back({"function_pointer_type", std::to_string((int)n->function_pointer_type.return_type) + "/" +
                                                    std::to_string(n->function_pointer_type.param_types.size())});
    if (!n->interface_bounds.empty()) out.push_back({"interface_bounds", std::to_string(n->interface_bounds.size())});
    if (n->foreign_module_decl) out.push_back({"foreign_module_decl", "set"});
    if (n->foreign_function_decl) out.push_back({"foreign_function_decl", "set"});
    return out;
}

static void dump(const ASTNode *n, std::string &o);
static void kid(const char *f, const ASTNode *c, std::string &o, int &cnt, bool vec) {
    if (!c && !vec) return;
    o += " "; o += f; o += " ";
    if (!c) o += "( 9999 0 0 )"; else dump(c, o);
    cnt++;
}
static void dump(const ASTNode *n, std::string &o) {
    Scalars sc = scalars_of(n, false);
    o += "( " + std::to_string((int)n->node_type) + " " + std::to_string(sc.size());
    for (auto &p : sc) o += " " + p.first + " " + enc(p.second);
    std::string k; int cnt = 0;
#define XP(f) kid(#f, n->f.get(), k, cnt, false);
#define XW(f) for (auto &c : n->f) kid(#f, c.get(), k, cnt, true);
    PTRS_A(XP) VECS_A(XW) PTRS_B(XP) VECS_B(XW) PTRS_C(XP) VECS_C(XW) PTRS_D(XP) VECS_D(XW)
    PTRS_E(XP) VECS_E(XW) PTRS_F(XP)
    for (auto &a : n->match_arms) {
        // a MatchArm is written as a pseudo node of kind 9998: its own members as scalars, its body as child "body"
        MatchArm da;
        std::vector<std::pair<std::string, std::string>> as;
        if (a.pattern_type != da.pattern_type) as.push_back({"pattern_type", std::to_string((int)a.pattern_type)});
        if (!a.variant_name.empty()) as.push_back({"variant_name", a.variant_name});
        if (!a.bindings.empty()) as.push_back({"bindings", joinv(a.bindings)});
        if (!a.enum_type_name.empty()) as.push_back({"enum_type_name", a.enum_type_name});
        k += " match_arms ( 9998 " + std::to_string(as.size());
        for (auto &p : as) k += " " + p.first + " " + enc(p.second);
        if (a.body) { k += " 1 body "; dump(a.body.get(), k); k += " )"; } else k += " 0 )";
        cnt++;
    }
    PTRS_G(XP) VECS_G(XW) PTRS_H(XP)
#undef XP
#undef XW
    o += " " + std::to_string(cnt) + k + " )";
}

struct Toks {
    std::vector<std::string> t; size_t i = 0;
    explicit Toks(const std::string &line) { std::istringstream ss(line); std::string w; while (ss >> w) t.push_back(w); }
    std::string next() { if (i >= t.size()) throw std::runtime_error("protocol: unexpected end of line"); return t[i++]; }
    long num() { return std::strtol(next().c_str(), nullptr, 10); }
};

static bool set_scalar(ASTNode *n, const std::string &f, const std::string &v) {
#define XB(g) if (f == #g) { n->g = (v == "1"); return true; }
    BOOLS(XB)
#undef XB
#define XI(g) if (f == #g) { n->g = std::strtoll(v.c_str(), nullptr, 10); return true; }
    INTS(XI)
#undef XI
#define XT(g) if (f == #g) { n->g = static_cast<TypeInfo>(std::strtol(v.c_str(), nullptr, 10)); return true; }
    TYPEINFOS(XT)
#undef XT
#define XS(g) if (f == #g) { n->g = v; return true; }
    STRINGS(XS)
#undef XS
#define XV(g) if (f == #g) { n->g = splitv(v); return true; }
    STRVECS(XV)
#undef XV
    if (f == "double_value") { n->double_value = std::strtod(v.c_str(), nullptr); return true; }
    return false;   // summary-only member: ignored when loading
}

static std::unique_ptr<ASTNode> load(Toks &tk) {
    if (tk.next() != "(") throw std::runtime_error("protocol: expected (");
    long kind = tk.num();
    long ns = tk.num();
    std::unique_ptr<ASTNode> n;
    if (kind != 9999) n = std::make_unique<ASTNode>(static_cast<ASTNodeType>(kind));
    for (long i = 0; i < ns; i++) {
        std::string f = tk.next(); std::string v = dec(tk.next());
        if (!n) continue;
        if (kind == 9998) {   // MatchArm pseudo node: park its members until the parent builds the arm
            if (f == "variant_name") n->name = v; else if (f == "bindings") n->str_value = v;
            else if (f == "enum_type_name") n->type_name = v; else if (f == "pattern_type") n->int_value = std::strtoll(v.c_str(), nullptr, 10);
            continue;
        }
        set_scalar(n.get(), f, v);
    }
    long nk = tk.num();
    for (long i = 0; i < nk; i++) {
        std::string f = tk.next();
        std::unique_ptr<ASTNode> c = load(tk);
        if (!n) continue;
        bool done = false;
#define XP(g) if (!done && f == #g) { n->g = std::move(c); done = true; }
#define XW(g) if (!done && f == #g) { n->g.push_back(std::move(c)); done = true; }
        PTRS_A(XP) VECS_A(XW) PTRS_B(XP) VECS_B(XW) PTRS_C(XP) VECS_C(XW) PTRS_D(XP) VECS_D(XW)
        PTRS_E(XP) VECS_E(XW) PTRS_F(XP) PTRS_G(XP) VECS_G(XW) PTRS_H(XP)
#undef XP
#undef XW
        if (!done && f == "match_arms") {
            MatchArm a;
            if (c && (long)c->node_type == 9998) {
                a.variant_name = c->name; a.bindings = splitv(c->str_value); a.enum_type_name = c->type_name;
                a.pattern_type = static_cast<PatternType>(c->int_value);
                a.body = std::move(c->body);
            } else {
                a.body = std::move(c);
            }
            n->match_arms.push_back(std::move(a)); done = true;
        }
        if (!done) throw std::runtime_error("protocol: unknown child field " + f);
    }
    if (tk.next() != ")") throw std::runtime_error("protocol: expected )");
    return n;
}

static std::string slurp(const std::string &p) {
    std::ifstream in(p); std::stringstream ss; ss << in.rdbuf(); return ss.str();
}

static void collect_funcs(ASTNode *root, std::vector<ASTNode *> &out) {
    if (!root) return;
    for (auto &s : root->statements) if (s && s->node_type == ASTNodeType::AST_FUNC_DECL) out.push_back(s.get());
}

int main() {
    std::ios::sync_with_stdio(false);
    std::string line;
    while (std::getline(std::cin, line)) {
        if (line.empty()) continue;
        std::string out;
        try {
            Toks tk(line);
            std::string cmd = tk.next();
            if (cmd == "KEY") {
                std::string f = dec(tk.next()); long n = tk.num();
                std::vector<std::string> a; for (long i = 0; i < n; i++) a.push_back(dec(tk.next()));
                out = "K " + enc(GenericInstantiation::generate_cache_key(f, a));
            } else if (cmd == "CLONE") {
                auto t = load(tk);
                auto c = GenericInstantiation::clone_ast_node(t.get());
                out = "T "; if (c) dump(c.get(), out); else out += "( 9999 0 0 )";
            } else if (cmd == "SUBST") {
                long k = tk.num(); std::map<std::string, std::string> m;
                for (long i = 0; i < k; i++) { std::string a = dec(tk.next()); std::string b = dec(tk.next()); m[a] = b; }
                auto t = load(tk);
                GenericInstantiation::substitute_type_parameters(t.get(), m);
                out = "T "; if (t) dump(t.get(), out); else out += "( 9999 0 0 )";
            } else if (cmd == "INST") {
                long n = tk.num(); std::vector<std::string> a; for (long i = 0; i < n; i++) a.push_back(dec(tk.next()));
                auto t = load(tk);
                try {
                    auto r = GenericInstantiation::instantiate_generic_function(t.get(), a);
                    out = "T "; dump(r.get(), out);
                } catch (const std::exception &e) { out = "E " + enc(e.what()); }
            } else if (cmd == "PARSE" || cmd == "FUNCS") {
                std::string path = dec(tk.next());
                std::string src = slurp(path);
                RecursiveParser parser(src, path);
                ASTNode *root = parser.parseProgram();
                std::vector<ASTNode *> fs; collect_funcs(root, fs);
                if (cmd == "FUNCS") {
                    for (auto f : fs) { std::string o = "F " + enc(f->name) + " " + (f->is_generic ? "1" : "0") + " "; dump(f, o); std::cout << o << "\n"; }
                } else {
                    long m = tk.num();
                    for (long q = 0; q < m; q++) {
                        std::string fn = dec(tk.next()); long n = tk.num();
                        std::vector<std::string> a; for (long i = 0; i < n; i++) a.push_back(dec(tk.next()));
                        ASTNode *f = nullptr; for (auto g : fs) if (g->name == fn && g->is_generic) f = g;
                        if (!f) { std::cout << "O ( 9999 0 0 )\nE " << enc("no generic function " + fn) << "\n"; continue; }
                        std::string o = "O "; dump(f, o); std::cout << o << "\n";
                        try {
                            auto r = GenericInstantiation::instantiate_generic_function(f, a);
                            std::string t = "T "; dump(r.get(), t); std::cout << t << "\n";
                        } catch (const std::exception &e) { std::cout << "E " << enc(e.what()) << "\n"; }
                    }
                }
                out = "END";
            } else if (cmd == "RESOLVE") {
                // the run-time type context of generic impl blocks: ast.h TypeContext::resolve_complex_type
                long k = tk.num(); std::map<std::string, std::string> m;
                for (long i = 0; i < k; i++) { std::string a = dec(tk.next()); std::string b = dec(tk.next()); m[a] = b; }
                TypeContext ctx(m);
                out = "R " + enc(ctx.resolve_complex_type(dec(tk.next())));
            } else if (cmd == "DEFAULTS") {
                ASTNode d(ASTNodeType::AST_NUMBER);
                out = "D";
                for (auto &p : scalars_of(&d, true)) out += " " + p.first + " " + enc(p.second);
            } else {
                out = "X " + enc("unknown command " + cmd);
            }
        } catch (const std::exception &e) {
            out = "X " + enc(e.what());
        }
        std::cout << out << "\n";
        std::cout.flush();
    }
    return 0;
}
