// Leaf driver: the repository's own preprocessor.cpp behind the same line protocol as
// ocaml/c17_driver.ml (CASE / F / D / L / END  ->  O lines, "E n W m", END).
#include "src/frontend/preprocessor/preprocessor.h"
#include <iostream>
#include <sstream>
#include <string>
#include <vector>
int main(int argc, char **argv) {
    std::string l, file = "in.cb";
    std::vector<std::pair<std::string, std::string>> defs;
    std::string text;
    while (std::getline(std::cin, l)) {
        if (l == "CASE") { defs.clear(); text.clear(); file = "in.cb"; }
        else if (l == "END") {
            PreprocessorNS::Preprocessor pp;
            pp.undefine("__DATE__"); pp.undefine("__TIME__"); pp.undefine("__VERSION__");
            for (auto &d : defs) pp.define(d.first, d.second);
            std::string out = pp.process(text, file);
            std::istringstream is(out); std::string o;
            while (std::getline(is, o)) std::cout << "O " << o << "\n";
            std::cout << "E " << pp.getErrors().size() << " W " << pp.getWarnings().size() << "\n";
            std::cout << "END" << std::endl;
        } else if (l.size() >= 2 && l[0] == 'D') {
            std::string d = l.substr(2); auto e = d.find('=');
            if (e == std::string::npos) defs.push_back({d, "1"}); else defs.push_back({d.substr(0, e), d.substr(e + 1)});
        } else if (l.size() >= 2 && l[0] == 'F') file = l.substr(2);
        else if (l.size() >= 1 && l[0] == 'L') { text += (l.size() >= 2 ? l.substr(2) : std::string()); text += "\n"; }
    }
}
