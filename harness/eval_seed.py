#!/usr/bin/env python3
"""eval_seed.py <worktree> <name e.g. C17-1> : confirm a seeded defect myself and file it under seeded/<name>/.
 (a) it builds, (b) the repository's own suite passes, (c) the demonstration differs between HEAD and the changed tree,
 then runs the property's check against a scratch copy with the patch and records the verdict; removes the worktree."""
import json, os, shutil, subprocess, sys, tempfile
sys.path.insert(0, os.path.dirname(os.path.abspath(__file__)))
import common
V = common.VERIF
wt, name = sys.argv[1], sys.argv[2]
seed = os.path.join(wt, "SEED")
meta = json.load(open(os.path.join(seed, "meta.json")))
prop = meta.get("property", name[:3])
log = {}
def sh(cmd, cwd=None, timeout=3600):
    p = subprocess.run(cmd, shell=True, cwd=cwd, capture_output=True, text=True, timeout=timeout)
    return p.returncode, p.stdout + p.stderr
# the patch must apply to current HEAD
rc, o = sh("git -C /repo apply --check %s/patch.diff" % seed)
log["applies_to_head"] = (rc == 0)
# (a)+(b) in the worktree as left by the agent
rc, o = sh("find src -name '*.o' -delete; make -j16 all > /dev/null 2>&1; echo built", cwd=wt)   # no header dependencies in the Makefile: clean rebuild
rc, o = sh("setsid timeout 3000 make test 2>&1 | tail -12", cwd=wt, timeout=3300)
log["suite_tail"] = o[-900:]
log["suite_passed"] = "4/4 passed" in o or "All 4 Test Suites Passed" in o
# (c) demo on HEAD build vs changed build (both built by me from sources: HEAD, and a copy of HEAD + patch)
head = os.path.join(common.build_impl("plain"), "main")
demo = os.path.join(seed, "demo.cb")
def run(binary, rundir):
    if os.path.exists(os.path.join(seed, "demo.sh")):
        # demo.sh scripts of the seeding agents run ./main of the tree they sit in: run them in a copy of SEED placed inside a tree
        rc, o = sh("cd SEED && (bash demo.sh 2>&1 | head -60)", cwd=rundir, timeout=300)
        return o
    rc, o = sh("timeout 20 %s %s 2>&1" % (binary, demo), cwd=rundir, timeout=60)
    return "rc=%d\n%s" % (rc, o)
log["demo_changed"] = run(os.path.join(wt, "main"), wt)[:2000]
# HEAD side: stash the change in the worktree, rebuild, run, restore
sh("git stash -q", cwd=wt)
sh("find src -name '*.o' -delete; make -j16 main > /dev/null 2>&1", cwd=wt)
log["demo_head"] = run(os.path.join(wt, "main"), wt)[:2000]
sh("git stash pop -q", cwd=wt)
log["demo_differs"] = log["demo_head"] != log["demo_changed"]
# file it
dest = os.path.join(V, "seeded", name)
shutil.rmtree(dest, ignore_errors=True)
shutil.copytree(seed, dest)
# run the check against a scratch copy with the patch
d = tempfile.mkdtemp(prefix="cbverif-seed-", dir="/var/tmp")
try:
    repo = os.path.join(d, "repo")
    subprocess.run(["rsync", "-a", "--exclude", ".git", "--exclude", "*.o", "--exclude", "/main", "--exclude", "/tests", "/repo/", repo + "/"], check=True)
    r = subprocess.run(["patch", "-p1", "-s", "-d", repo, "-i", os.path.join(dest, "patch.diff")], capture_output=True, text=True)
    env = dict(os.environ, CB_REPO=repo, CB_EVID_DIR=os.path.join(d, "ev"), CB_REPLAY_DIR=os.path.join(dest, "replays_found"))
    verdicts = {}
    for tier in ["quick"]:
        p = subprocess.run(["./check", prop, "--tier", tier], cwd=V, env=env, capture_output=True, text=True, timeout=3000)
        viol = [l for l in p.stdout.split("\n") if l.startswith("VIOLATION")]
        verdicts[tier] = {"rc": p.returncode, "violations": len(viol), "first": viol[0][:400] if viol else "",
                          "concrete": any(not l.rstrip().endswith("no-failing-input-found") for l in viol)}
    log["check"] = verdicts
finally:
    shutil.rmtree(d, ignore_errors=True)
# demo.cb directly on both builds (demo.sh scripts differ in where they expect ./main)
try:
    p = subprocess.run(["python3", os.path.join(V, "harness", "demo_seed.py"), name], capture_output=True, text=True, timeout=1500)
    log["demo_cb_differs"] = p.stdout.strip().endswith("DIFFERS")
    log["demo_cb_outputs"] = p.stdout[-3000:]
except Exception as e:
    log["demo_cb_differs"] = None
    log["demo_cb_outputs"] = str(e)
meta["confirmed_by_coordinator"] = log
meta["what_i_ran"] = "harness/eval_seed.py: git apply --check on HEAD; make -j8 all && make test in the agent's worktree; demo on HEAD build vs changed build; CB_REPO=<copy+patch> ./check %s" % prop
json.dump(meta, open(os.path.join(dest, "meta.json"), "w"), indent=1)
print(json.dumps({k: log[k] for k in ("applies_to_head", "suite_passed", "demo_differs", "demo_cb_differs", "check")}, indent=1))
subprocess.run(["git", "-C", "/repo", "worktree", "remove", "--force", wt])
