#!/bin/bash
# Build the framework from files on disk only (offline).
#   setup.sh all            - Coq project (full .vo build) + every extracted OCaml model driver
#   setup.sh coq-makefile   - regenerate coq/_CoqProject and coq/Makefile
#   setup.sh model Cnn      - (re)build bin/cnn_model from coq/Cnn/Extract_Cnn.v + ocaml/cnn_driver.ml
set -u
V="$(cd "$(dirname "$0")/.." && pwd)"
cd "$V"
mkdir -p bin evidence replays .cache
# one Coq build at a time (same lock file as harness/common.py Lock("coq"))
if [ "${CBV_LOCKED:-}" != 1 ]; then exec 9>"$V/.cache/coq.lock"; flock 9; export CBV_LOCKED=1; fi

coq_makefile_gen() {
  ( cd coq
    { echo "-Q . Cb"; find . -name '*.v' ! -name '.*' | sed 's|^\./||' | LC_ALL=C sort; } > _CoqProject.new
    if ! cmp -s _CoqProject.new _CoqProject || [ ! -f Makefile ]; then
      mv _CoqProject.new _CoqProject
      coq_makefile -f _CoqProject -o Makefile >/dev/null
    else
      rm -f _CoqProject.new
    fi )
}

build_model() {
  local P="$1"; local p; p="$(echo "$P" | tr 'A-Z' 'a-z')"
  [ -f "coq/$P/Extract_$P.v" ] || return 0
  ( cd coq && timeout 1400 make -j16 "$P/Extract_$P.vo" >/dev/null 2>"$V/.cache/model-$P.err" ) || { cat "$V/.cache/model-$P.err"; return 1; }
  local ml="coq/$P/${p}_model.ml" drv="ocaml/${p}_driver.ml" out="bin/${p}_model"
  [ -f "$ml" ] || { echo "missing $ml"; return 1; }
  if [ ! -x "$out" ] || [ "$ml" -nt "$out" ] || [ "$drv" -nt "$out" ]; then
    local tmp; tmp="$(mktemp -d /var/tmp/cbverif-ocaml-XXXXXX)"
    cp "coq/$P/${p}_model.ml" "coq/$P/${p}_model.mli" "$drv" "$tmp/" &&
    ( cd "$tmp" && timeout 600 ocamlfind ocamlopt -O2 -w -a -package str -linkpkg "${p}_model.mli" "${p}_model.ml" "${p}_driver.ml" -o model 2>err.txt \
        || timeout 600 ocamlfind ocamlopt -w -a -package str -linkpkg "${p}_model.mli" "${p}_model.ml" "${p}_driver.ml" -o model 2>err.txt ) \
      && cp "$tmp/model" "$out.tmp" && mv "$out.tmp" "$out" || { cat "$tmp/err.txt"; rm -rf "$tmp"; return 1; }
    rm -rf "$tmp"
  fi
}

case "${1:-all}" in
  coq-makefile) coq_makefile_gen ;;
  model) coq_makefile_gen; build_model "$2" ;;
  all)
    coq_makefile_gen
    ( cd coq && timeout 3000 make -k -j16 ) || echo "WARNING: some Coq files failed to build"
    rc=0
    for d in coq/*/; do P="$(basename "$d")"; build_model "$P" || rc=1; done
    exit $rc ;;
  *) echo "usage: setup.sh all|coq-makefile|model Cnn"; exit 2 ;;
esac
