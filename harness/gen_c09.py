"""C09 - Cb program templates for the const matrix (object kinds x mutation paths) and the
translation of ConstPtr op scripts (coq/C09/ConstPtr.v) into Cb programs.

A matrix cell is a pair (kind, path). `cell(kind, path, const=True)` returns the Cb program that
declares the object of that kind, prints its observable value, performs the mutation attempt along
that path and prints the value again, or None when the combination is not expressible (e.g. an
element store into a scalar). `const=False` gives the CONTROL twin: the same program with the const
qualifier under test removed; it must run to the end and print the CHANGED value - that is how the
check knows a rejection is due to constness and not to an unsupported construct.
"""

KINDS = ["tiny", "short", "int", "long", "char", "bool", "array", "struct", "member", "global", "param", "ptc", "cptr"]
PATHS = ["assign", "compound", "postinc", "predec", "elem", "memberst", "deref", "arrow", "refparam", "addr_decl",
         "addr_asg", "localref"]

SCALAR_T = {"tiny": "tiny", "short": "short", "int": "int", "long": "long", "char": "char", "bool": "bool",
            "global": "int", "param": "int"}
# initial value, value stored by the attempt (Cb literals)
V0 = {"tiny": "11", "short": "12", "int": "13", "long": "14", "char": "'A'", "bool": "true", "global": "15", "param": "16"}
V1 = {"tiny": "3", "short": "3", "int": "3", "long": "3", "char": "'C'", "bool": "false", "global": "3", "param": "3"}


def _scalar(kind, path, const):
    t = SCALAR_T[kind]
    q = "const " if const else ""
    v0, v1 = V0[kind], V1[kind]
    pre = ""
    decl = "%s%s c = %s;" % (q, t, v0)
    if path == "assign":
        att = "c = %s;" % v1
    elif path == "compound":
        att = "c += 1;" if kind != "bool" else "c &= false;"
    elif path == "postinc":
        att = "c++;"
    elif path == "predec":
        att = "--c;"
    elif path == "deref":
        # the pointer is acquired legally (pointer to const when the object is const); the store is the attempt
        att = "%s%s* p = &c; *p = %s;" % (q, t, v1)
    elif path == "refparam":
        pre = "void mut(%s& r) { r = %s; }\n" % (t, v1)
        att = "mut(c);"
    elif path == "addr_decl":
        att = "%s* p = &c; *p = %s;" % (t, v1)
    elif path == "addr_asg":
        att = "%s* p; p = &c; *p = %s;" % (t, v1)
    elif path == "localref":
        att = "%s& r = c; r = %s;" % (t, v1)
    else:
        return None
    obs = "println(c);"
    if kind == "global":
        return "%s%s\nvoid main() {\n  %s\n  %s\n  %s\n}\n" % (pre, decl, obs, att, obs)
    if kind == "param":
        return "%svoid f(%s%s c) {\n  %s\n  %s\n  %s\n}\nvoid main() {\n  f(%s);\n}\n" % (pre, q, t, obs, att, obs, v0)
    return "%svoid main() {\n  %s\n  %s\n  %s\n  %s\n}\n" % (pre, decl, obs, att, obs)


def _array(path, const):
    q = "const " if const else ""
    pre = ""
    decl = "%sint[3] c = [21, 22, 23];" % q
    if path == "assign":
        att = "c = [4, 5, 6];"
    elif path == "compound":
        att = "c[1] += 1;"
    elif path == "postinc":
        att = "c[1]++;"
    elif path == "predec":
        att = "--c[1];"
    elif path == "elem":
        att = "c[1] = 3;"
    elif path == "deref":
        att = "%sint* p = &c[1]; *p = 3;" % q
    elif path == "refparam":
        pre = "void mut(int[3]& r) { r[1] = 3; }\n"
        att = "mut(c);"
    elif path == "addr_decl":
        att = "int* p = &c[1]; *p = 3;"
    elif path == "addr_asg":
        att = "int* p; p = &c[1]; *p = 3;"
    elif path == "localref":
        att = "int& r = c[1]; r = 3;"
    else:
        return None
    obs = "println(c[0], c[1], c[2]);"
    return "%svoid main() {\n  %s\n  %s\n  %s\n  %s\n}\n" % (pre, decl, obs, att, obs)


def _struct(path, const):
    q = "const " if const else ""
    pre = "struct S { int a; int b; };\n"
    decl = "%sS c = {31, 32};" % q
    if path == "assign":
        att = "S t = {4, 5}; c = t;"
    elif path == "compound":
        att = "c.a += 1;"
    elif path == "postinc":
        att = "c.a++;"
    elif path == "predec":
        att = "--c.a;"
    elif path == "memberst":
        att = "c.a = 3;"
    elif path == "deref":
        att = "%sS* p = &c; (*p).a = 3;" % q
    elif path == "arrow":
        att = "%sS* p = &c; p->a = 3;" % q
    elif path == "refparam":
        pre += "void mut(S& r) { r.a = 3; }\n"
        att = "mut(c);"
    elif path == "addr_decl":
        att = "S* p = &c; p->a = 3;"
    elif path == "addr_asg":
        att = "S* p; p = &c; p->a = 3;"
    elif path == "localref":
        att = "S& r = c; r.a = 3;"
    else:
        return None
    obs = "println(c.a, c.b);"
    return "%svoid main() {\n  %s\n  %s\n  %s\n  %s\n}\n" % (pre, decl, obs, att, obs)


def _member(path, const):
    """a const member of a non-const struct variable"""
    q = "const " if const else ""
    pre = "struct S { %sint a; int b; };\n" % q
    decl = "S c = {41, 42};"
    if path == "assign" or path == "memberst":
        att = "c.a = 3;" if path == "memberst" else "S t = {4, 5}; c = t;"
    elif path == "compound":
        att = "c.a += 1;"
    elif path == "postinc":
        att = "c.a++;"
    elif path == "predec":
        att = "--c.a;"
    elif path == "deref":
        att = "S* p = &c; (*p).a = 3;"
    elif path == "arrow":
        att = "S* p = &c; p->a = 3;"
    elif path == "refparam":
        pre += "void mut(int& r) { r = 3; }\n"
        att = "mut(c.a);"
    elif path == "addr_decl":
        att = "int* p = &c.a; *p = 3;"
    elif path == "addr_asg":
        att = "int* p; p = &c.a; *p = 3;"
    elif path == "localref":
        att = "int& r = c.a; r = 3;"
    else:
        return None
    obs = "println(c.a, c.b);"
    return "%svoid main() {\n  %s\n  %s\n  %s\n  %s\n}\n" % (pre, decl, obs, att, obs)


def _ptc(path, const):
    """the object reached through a pointer to const: `const int* c = &x` (x itself is not const)"""
    q = "const " if const else ""
    pre = ""
    if path in ("memberst", "arrow"):
        pre = "struct S { int a; int b; };\n"
        decl = "S x = {51, 52}; %sS* c = &x;" % q
        obs = "println(x.a, x.b);"
        att = "(*c).a = 3;" if path == "memberst" else "c->a = 3;"
        return "%svoid main() {\n  %s\n  %s\n  %s\n  %s\n}\n" % (pre, decl, obs, att, obs)
    decl = "int x = 53; %sint* c = &x;" % q
    obs = "println(x);"
    if path == "assign" or path == "deref":
        att = "*c = 3;"
        if path == "assign":
            return None          # the same program as `deref`
    elif path == "compound":
        att = "*c += 1;"
    elif path == "postinc":
        att = "(*c)++;"
    elif path == "predec":
        att = "--(*c);"
    elif path == "elem":
        att = "c[0] = 3;"
    elif path == "refparam":
        pre = "void mut(int& r) { r = 3; }\n"
        att = "mut(*c);"
    elif path == "addr_decl":
        att = "int* p = c; *p = 3;"
    elif path == "addr_asg":
        att = "int* p; p = c; *p = 3;"
    elif path == "localref":
        att = "int& r = *c; r = 3;"
    else:
        return None
    return "%svoid main() {\n  %s\n  %s\n  %s\n  %s\n}\n" % (pre, decl, obs, att, obs)


def _cptr(path, const):
    """a const pointer `int* const c = &x`: the protected object is the pointer itself (its target)"""
    q = " const" if const else ""
    decl = "int x = 61; int y = 62; int*%s c = &x;" % q
    obs = "println(*c);"
    if path == "assign":
        att = "c = &y;"
    elif path == "compound":
        att = "c += 1; c -= 1; c = &y;"
    elif path == "postinc":
        att = "c++; c = &y;"
    elif path == "predec":
        att = "--c; c = &y;"
    elif path == "addr_decl":
        att = "int** pp = &c; *pp = &y;"
    elif path == "addr_asg":
        att = "int** pp; pp = &c; *pp = &y;"
    else:
        return None
    return "void main() {\n  %s\n  %s\n  %s\n  %s\n}\n" % (decl, obs, att, obs)


def cell(kind, path, const=True):
    if kind in SCALAR_T:
        return _scalar(kind, path, const)
    if kind == "array":
        return _array(path, const)
    if kind == "struct":
        return _struct(path, const)
    if kind == "member":
        return _member(path, const)
    if kind == "ptc":
        return _ptc(path, const)
    if kind == "cptr":
        return _cptr(path, const)
    raise KeyError(kind)


def classify(rc, out, err):
    """outcome of one matrix program: (class, first line, rest)"""
    lines = out.split("\n")
    if lines and lines[-1] == "":
        lines = lines[:-1]
    if rc == 1 and len(lines) == 1:
        return "rejected"
    if rc == 0 and len(lines) == 2:
        return "accepted-unchanged" if lines[0] == lines[1] else "accepted-changed"
    if rc == 1 and len(lines) == 0:
        return "rejected-early"          # failed before the first observation (parse error / declaration rejected)
    if rc == 1 and len(lines) == 2:
        return "late-error-unchanged" if lines[0] == lines[1] else "late-error-changed"
    return "other(rc=%d,lines=%d)" % (rc, len(lines))
