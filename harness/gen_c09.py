"""C09 - Cb program templates for the const matrix (object kinds x mutation paths) and the
translation of ConstPtr op scripts (coq/C09/ConstPtr.v) into Cb programs.

A matrix cell is a pair (kind, path). `cell(kind, path, const=True)` returns the Cb program that
declares the object of that kind, prints its observable value, performs the mutation attempt along
that path and prints the value again, or None when the combination is not expressible (e.g. an
element store into a scalar). `const=False` gives the CONTROL twin: the same program with the const
qualifier under test removed; it must run to the end and print the CHANGED value - that is how the
check knows a rejection is due to constness and not to an unsupported construct.
"""

KINDS = ["tiny", "short", "int", "long", "char", "bool", "array", "struct", "member", "global", "param", "ptc", "cptr"]
PATHS = ["assign", "compound", "postinc", "predec", "elem", "memberst", "deref", "arrow", "refparam", "addr_decl",
         "addr_asg", "localref"]

SCALAR_T = {"tiny": "tiny", "short": "short", "int": "int", "long": "long", "char": "char", "bool": "bool",
            "global": "int", "param": "int"}
# initial value, value stored by the attempt (Cb literals)
V0 = {"tiny": "11", "short": "12", "int": "13", "long": "14", "char": "'A'", "bool": "true", "global": "15", "param": "16"}
V1 = {"tiny": "3", "short": "3", "int": "3", "long": "3", "char": "'C'", "bool": "false", "global": "3", "param": "3"}


def _scalar(kind, path, const):
    t = SCALAR_T[kind]
    q = "const " if const else ""
    v0, v1 = V0[kind], V1[kind]
    pre = ""
    decl = "%s%s c = %s;" % (q, t, v0)
    if path == "assign":
        att = "c = %s;" % v1
    elif path == "compound":
        att = "c += 1;" if kind != "bool" else "c &= false;"
    elif path == "postinc":
        att = "c++;"
    elif path == "predec":
        att = "--c;"
    elif path == "deref":
        # the pointer is acquired legally (pointer to const when the object is const); the store is the attempt
        att = "%s%s* p = &c; *p = %s;" % (q, t, v1)
    elif path == "refparam":
        pre = "void mut(%s& r) { r = %s; }\n" % (t, v1)
        att = "mut(c);"
    elif path == "addr_decl":
        att = "%s* p = &c; *p = %s;" % (t, v1)
    elif path == "addr_asg":
        att = "%s* p; p = &c; *p = %s;" % (t, v1)
    elif path == "localref":
        att = "%s& r = c; r = %s;" % (t, v1)
    else:
        return None
    obs = "println(c);"
    if kind == "global":
        return "%s%s\nvoid main() {\n  %s\n  %s\n  %s\n}\n" % (pre, decl, obs, att, obs)
    if kind == "param":
        return "%svoid f(%s%s c) {\n  %s\n  %s\n  %s\n}\nvoid main() {\n  f(%s);\n}\n" % (pre, q, t, obs, att, obs, v0)
    return "%svoid main() {\n  %s\n  %s\n  %s\n  %s\n}\n" % (pre, decl, obs, att, obs)


def _array(path, const):
    q = "const " if const else ""
    pre = ""
    decl = "%sint[3] c = [21, 22, 23];" % q
    if path == "assign":
        att = "c = [4, 5, 6];"
    elif path == "compound":
        att = "c[1] += 1;"
    elif path == "postinc":
        att = "c[1]++;"
    elif path == "predec":
        att = "--c[1];"
    elif path == "elem":
        att = "c[1] = 3;"
    elif path == "deref":
        att = "%sint* p = &c[1]; *p = 3;" % q
    elif path == "refparam":
        pre = "void mut(int[3]& r) { r[1] = 3; }\n"
        att = "mut(c);"
    elif path == "addr_decl":
        att = "int* p = &c[1]; *p = 3;"
    elif path == "addr_asg":
        att = "int* p; p = &c[1]; *p = 3;"
    elif path == "localref":
        att = "int& r = c[1]; r = 3;"
    else:
        return None
    obs = "println(c[0], c[1], c[2]);"
    return "%svoid main() {\n  %s\n  %s\n  %s\n  %s\n}\n" % (pre, decl, obs, att, obs)


def _struct(path, const):
    q = "const " if const else ""
    pre = "struct S { int a; int b; };\n"
    decl = "%sS c = {31, 32};" % q
    if path == "assign":
        att = "S t = {4, 5}; c = t;"
    elif path == "compound":
        att = "c.a += 1;"
    elif path == "postinc":
        att = "c.a++;"
    elif path == "predec":
        att = "--c.a;"
    elif path == "memberst":
        att = "c.a = 3;"
    elif path == "deref":
        att = "%sS* p = &c; (*p).a = 3;" % q
    elif path == "arrow":
        att = "%sS* p = &c; p->a = 3;" % q
    elif path == "refparam":
        pre += "void mut(S& r) { r.a = 3; }\n"
        att = "mut(c);"
    elif path == "addr_decl":
        att = "S* p = &c; p->a = 3;"
    elif path == "addr_asg":
        att = "S* p; p = &c; p->a = 3;"
    elif path == "localref":
        att = "S& r = c; r.a = 3;"
    else:
        return None
    obs = "println(c.a, c.b);"
    return "%svoid main() {\n  %s\n  %s\n  %s\n  %s\n}\n" % (pre, decl, obs, att, obs)


def _member(path, const):
    """a const member of a non-const struct variable"""
    q = "const " if const else ""
    pre = "struct S { %sint a; int b; };\n" % q
    decl = "S c = {41, 42};"
    if path == "assign" or path == "memberst":
        att = "c.a = 3;" if path == "memberst" else "S t = {4, 5}; c = t;"
    elif path == "compound":
        att = "c.a += 1;"
    elif path == "postinc":
        att = "c.a++;"
    elif path == "predec":
        att = "--c.a;"
    elif path == "deref":
        att = "S* p = &c; (*p).a = 3;"
    elif path == "arrow":
        att = "S* p = &c; p->a = 3;"
    elif path == "refparam":
        pre += "void mut(int& r) { r = 3; }\n"
        att = "mut(c.a);"
    elif path == "addr_decl":
        att = "int* p = &c.a; *p = 3;"
    elif path == "addr_asg":
        att = "int* p; p = &c.a; *p = 3;"
    elif path == "localref":
        att = "int& r = c.a; r = 3;"
    else:
        return None
    obs = "println(c.a, c.b);"
    return "%svoid main() {\n  %s\n  %s\n  %s\n  %s\n}\n" % (pre, decl, obs, att, obs)


def _ptc(path, const):
    """the object reached through a pointer to const: `const int* c = &x` (x itself is not const)"""
    q = "const " if const else ""
    pre = ""
    if path in ("memberst", "arrow"):
        pre = "struct S { int a; int b; };\n"
        decl = "S x = {51, 52}; %sS* c = &x;" % q
        obs = "println(x.a, x.b);"
        att = "(*c).a = 3;" if path == "memberst" else "c->a = 3;"
        return "%svoid main() {\n  %s\n  %s\n  %s\n  %s\n}\n" % (pre, decl, obs, att, obs)
    decl = "int x = 53; %sint* c = &x;" % q
    obs = "println(x);"
    if path == "assign" or path == "deref":
        att = "*c = 3;"
        if path == "assign":
            return None          # the same program as `deref`
    elif path == "compound":
        att = "*c += 1;"
    elif path == "postinc":
        att = "(*c)++;"
    elif path == "predec":
        att = "--(*c);"
    elif path == "elem":
        att = "c[0] = 3;"
    elif path == "refparam":
        pre = "void mut(int& r) { r = 3; }\n"
        att = "mut(*c);"
    elif path == "addr_decl":
        att = "int* p = c; *p = 3;"
    elif path == "addr_asg":
        att = "int* p; p = c; *p = 3;"
    elif path == "localref":
        att = "int& r = *c; r = 3;"
    else:
        return None
    return "%svoid main() {\n  %s\n  %s\n  %s\n  %s\n}\n" % (pre, decl, obs, att, obs)


def _cptr(path, const):
    """a const pointer `int* const c = &x[1]`: the protected object is the pointer itself (its target)"""
    q = " const" if const else ""
    decl = "int[3] x = [61, 62, 63]; int y = 64; int*%s c = &x[1];" % q
    obs = "println(*c);"
    if path == "assign":
        att = "c = &y;"
    elif path == "compound":
        att = "c += 1;"
    elif path == "postinc":
        att = "c++;"
    elif path == "predec":
        att = "--c;"
    elif path == "addr_decl":
        att = "int** pp = &c; *pp = &y;"
    elif path == "addr_asg":
        att = "int** pp; pp = &c; *pp = &y;"
    else:
        return None
    return "void main() {\n  %s\n  %s\n  %s\n  %s\n}\n" % (decl, obs, att, obs)


def cell(kind, path, const=True):
    if kind in SCALAR_T:
        return _scalar(kind, path, const)
    if kind == "array":
        return _array(path, const)
    if kind == "struct":
        return _struct(path, const)
    if kind == "member":
        return _member(path, const)
    if kind == "ptc":
        return _ptc(path, const)
    if kind == "cptr":
        return _cptr(path, const)
    raise KeyError(kind)


def classify(rc, out, err):
    """outcome of one matrix program: (class, first line, rest)"""
    lines = out.split("\n")
    if lines and lines[-1] == "":
        lines = lines[:-1]
    if rc == 1 and len(lines) == 1:
        return "rejected"
    if rc == 0 and len(lines) == 2:
        return "accepted-unchanged" if lines[0] == lines[1] else "accepted-changed"
    if rc == 1 and len(lines) == 0:
        return "rejected-early"          # failed before the first observation (parse error / declaration rejected)
    if rc == 1 and len(lines) == 2:
        return "late-error-unchanged" if lines[0] == lines[1] else "late-error-changed"
    return "other(rc=%d,lines=%d)" % (rc, len(lines))


# ====================================================================================================
# Scripts of the machine coq/C09/ConstPtr.v (text format documented in ocaml/c09_driver.ml)
# ====================================================================================================

def parse_script(line):
    os_, ps_, ops_ = line.split("|")
    objs = []
    for it in [x.strip() for x in os_.split(";") if x.strip()]:
        sh, c, mc, vs = it.split(",")
        vals = [int(v) for v in vs.split()]
        objs.append({"shape": sh, "const": c == "1", "mconst": [] if mc == "-" else [b == "1" for b in mc], "vals": vals})
    ptrs = []
    for it in [x.strip() for x in ps_.split(";") if x.strip()]:
        t, pc, cc = it.split(",")
        ptrs.append({"tgt": parse_tgt(t), "pc": pc == "1", "cc": cc == "1"})
    ops = [x.strip().split() for x in ops_.split(";") if x.strip()]
    return objs, ptrs, ops


def parse_tgt(t):
    if t == "n":
        return None
    if t[0] == "o":
        return ("o", int(t[1:]))
    o, k = t[1:].split(".")
    return ("s", int(o), int(k))


def parse_snap(s):
    vs, ts = s.split("#")
    vals = [[int(v) for v in o.split(",")] if o else [] for o in vs.split("/")] if vs else []
    tg = [parse_tgt(t) for t in ts.split(",")] if ts else []
    return vals, tg


def _desig(objs, o, k):
    sh = objs[o]["shape"]
    if sh == "s":
        return "o%d" % o
    if sh == "a":
        return "o%d[%d]" % (o, k)
    return "o%d.m%d" % (o, k)


def _src_text(objs, src):
    if src[0] == "=":
        return "p%s" % src[1:]
    t = parse_tgt(src[1:])
    if t[0] == "o":
        return "&o%d" % t[1]
    return "&" + _desig(objs, t[1], t[2])


def _src_base(objs, ptr_base, src):
    if src[0] == "=":
        q = int(src[1:])
        return ptr_base[q] if q < len(ptr_base) else "int"
    t = parse_tgt(src[1:])
    return "T%d" % t[1] if t[0] == "o" else "int"


def obs_line(objs, tgts):
    """the println that shows every slot of every object and what every non-null pointer points at"""
    args = []
    for o, ob in enumerate(objs):
        for k in range(len(ob["vals"])):
            args.append(_desig(objs, o, k))
    for p, t in enumerate(tgts):
        if t is None:
            continue
        args.append("*p%d" % p if t[0] == "s" else "p%d->m0" % p)
    return "println(%s);" % ", ".join(args)


def expected_line(vals, tgts):
    out = [str(v) for ob in vals for v in ob]
    for t in tgts:
        if t is None:
            continue
        out.append(str(vals[t[1]][t[2]] if t[0] == "s" else vals[t[1]][0]))
    return " ".join(out)


def render_script(line, free_snaps, globs=()):
    """Cb program for a script. `free_snaps` = the snapshots of the FREE run (one per op): they give the
    pointer structure after every op, which fixes what each observation prints."""
    objs, ptrs, ops = parse_script(line)
    pre, gl, body = [], [], []
    for o, ob in enumerate(objs):
        if ob["shape"] == "t":
            pre.append("struct T%d { %s };" % (o, " ".join("%sint m%d;" % ("const " if (k < len(ob["mconst"]) and ob["mconst"][k]) else "", k)
                                                           for k in range(len(ob["vals"])))))
    for o, ob in enumerate(objs):
        q = "const " if ob["const"] else ""
        if ob["shape"] == "s":
            d = "%sint o%d = %d;" % (q, o, ob["vals"][0])
        elif ob["shape"] == "a":
            d = "%sint[%d] o%d = [%s];" % (q, len(ob["vals"]), o, ", ".join(map(str, ob["vals"])))
        else:
            d = "%sT%d o%d = {%s};" % (q, o, o, ", ".join(map(str, ob["vals"])))
        (gl if o in globs else body).append(d)
    ptr_base = []
    for p, pt in enumerate(ptrs):
        t = pt["tgt"]
        base = "int" if (t is None or t[0] == "s") else "T%d" % t[1]
        ptr_base.append(base)
        init = "" if t is None else " = " + ("&o%d" % t[1] if t[0] == "o" else "&" + _desig(objs, t[1], t[2]))
        body.append("%s%s*%s p%d%s;" % ("const " if pt["pc"] else "", base, " const" if pt["cc"] else "", p, init))
    tg0 = [pt["tgt"] for pt in ptrs]
    body.append(obs_line(objs, tg0))
    nfun = 0
    for i, w in enumerate(ops):
        k = w[0]
        if k == "D":
            d = _desig(objs, int(w[2]), int(w[3]))
            u = int(w[4])
            if w[1] == "a":
                st = "%s = %d;" % (d, u)
            elif w[1] == "c":
                st = "%s %s= %d;" % (d, "+" if u >= 0 else "-", abs(u))
            else:
                st = "%s++;" % d if u >= 0 else "--%s;" % d
        elif k == "W":
            o = int(w[1])
            vs = ", ".join(w[2:])
            if objs[o]["shape"] == "a":
                st = "o%d = [%s];" % (o, vs)
            else:
                st = "T%d tmp%d = {%s}; o%d = tmp%d;" % (o, i, vs, o, i)
        elif k == "N":
            p = len(ptr_base)
            if w[3] == "-":
                base = "int"
                for w2 in ops[i + 1:]:          # the first assignment fixes the pointee type
                    if w2[0] == "P" and int(w2[1]) == p:
                        base = _src_base(objs, ptr_base, w2[2])
                        break
                init = ""
            else:
                base = _src_base(objs, ptr_base, w[3])
                init = " = " + _src_text(objs, w[3])
            ptr_base.append(base)
            st = "%s%s*%s p%d%s;" % ("const " if w[1] == "1" else "", base, " const" if w[2] == "1" else "", p, init)
        elif k == "P":
            st = "p%s = %s;" % (w[1], _src_text(objs, w[2]))
        elif k == "T":
            p, m, u = w[2], w[3], int(w[4])
            st = {"d": "*p%s = %d;" % (p, u),
                  "i": ("(*p%s)++;" % p) if u >= 0 else ("--(*p%s);" % p),
                  "e": "*(p%s + 0) = %d;" % (p, u),
                  "m": "(*p%s).m%s = %d;" % (p, m, u),
                  "a": "p%s->m%s = %d;" % (p, m, u)}[w[1]]
        elif k == "R":
            o, kk, u = int(w[3]), int(w[4]), int(w[5])
            q = "const " if w[2] == "1" else ""
            ty = "int" if objs[o]["shape"] == "s" else "T%d" % o
            acc = "r" if objs[o]["shape"] == "s" else "r.m%d" % kk
            if w[1] == "1":
                nfun += 1
                pre.append("void rf%d(%s%s& r) { %s = %d; }" % (nfun, q, ty, acc, u))
                st = "rf%d(o%d);" % (nfun, o)
            else:
                st = "%s%s& r%d = o%d; %s = %d;" % (q, ty, i, o, acc.replace("r", "r%d" % i, 1), u)
        elif k == "C":
            nfun += 1
            pre.append("void pf%d(int* q) { *q = %d; }" % (nfun, int(w[2])))
            st = "pf%d(%s);" % (nfun, _src_text(objs, w[1]))
        elif k == "M":
            p, d = w[2], int(w[3])
            if w[1] == "a":
                st = "p%s = p%s %s %d;" % (p, p, "+" if d >= 0 else "-", abs(d))
            elif w[1] == "c":
                st = "p%s %s= %d;" % (p, "+" if d >= 0 else "-", abs(d))
            else:
                st = "p%s++;" % p if d >= 0 else "--p%s;" % p
        else:
            raise ValueError(w)
        body.append(st)
        if i < len(free_snaps):
            body.append(obs_line(objs, parse_snap(free_snaps[i])[1]))
    return "\n".join(pre + gl) + ("\n" if pre or gl else "") + "void main() {\n" + "\n".join("  " + b for b in body) + "\n}\n"


def expected_transcript(run, init_snap):
    """(stdout, failed?) a policy's run demands: one line for the start state, one per accepted op"""
    outcome, snaps = run
    lines = [expected_line(*parse_snap(init_snap))] + [expected_line(*parse_snap(s)) for s in snaps]
    return "\n".join(lines) + "\n", outcome.startswith("rej")


def parse_model_output(text):
    """-> list of dicts {spec:(outcome,[snaps]), mech:..., free:..., inv:bool, init:snap} in input order"""
    res, cur = [], {}
    for l in text.split("\n"):
        w = l.split(" ")
        if w[0] in ("SPEC", "MECH", "FREE", "OBS"):
            cur[w[0].lower()] = (w[1], w[2:])
        elif w[0] == "INV":
            cur["inv"] = w[1] == "1"
            cur["init"] = w[2]
            res.append(cur)
            cur = {}
        elif w[0] == "ERROR":
            res.append({"error": l})
            cur = {}
    return res


# ---------------------------------------------------------------------------------------------------- random scripts
DIRECT_SITE = {("s", "a"): "AssignVar", ("s", "c"): "CompoundVar", ("s", "i"): "IncDecVar",
               ("a", "a"): "ElemStore", ("a", "c"): "ElemCompound", ("a", "i"): "ElemIncDec",
               ("t", "a"): "MemberStore", ("t", "c"): "MemberCompound", ("t", "i"): "MemberIncDec"}
PFORM_SITE = {"d": "DerefStore", "i": "DerefIncDec", "e": "DerefExprStore", "m": "DerefMember", "a": "ArrowStore"}
MOVE_SITE = {"a": "ReseatAssign", "c": "ReseatCompound", "i": "ReseatIncDec"}


def random_script(rng, attack=0.35, avoid=()):
    """A well-formed script: objects, initial pointers that respect the discipline, 3..9 operations.
    With probability `attack` an operation goes for something protected. `avoid` = names of check sites
    (ocaml/c09_driver.ml site_s) through which no attack is made - one per recorded finding; with
    "MemberIncDec" in it `s.m++` is not used at all (the implementation loses the new value)."""
    objs = []
    for i in range(rng.randint(2, 4)):
        sh = rng.choice("ssaat")
        n = {"s": 1, "a": rng.randint(2, 3), "t": 2}[sh]
        cst = rng.random() < 0.5
        mc = []
        if sh == "t":
            mc = [rng.random() < 0.3, False]
        objs.append({"shape": sh, "const": cst, "mconst": mc, "vals": [10 * (i + 1) + k for k in range(n)]})

    def prot(o, k):
        return objs[o]["const"] or (k < len(objs[o]["mconst"]) and objs[o]["mconst"][k])

    def tprot(t):
        return objs[t[1]]["const"] if t[0] == "o" else prot(t[1], t[2])

    all_slots = [(o, k) for o in range(len(objs)) for k in range(len(objs[o]["vals"]))]
    structs = [o for o in range(len(objs)) if objs[o]["shape"] == "t"]
    ptrs = []          # dict tgt, pc, cc, base

    def src_choice(base):
        """a pointer source of the given pointee type: (text, target, is-const-source, addr-kind)"""
        c = []
        if base == "int":
            c += [("&s%d.%d" % (o, k), ("s", o, k), prot(o, k), "bare" if objs[o]["shape"] == "s" else "sub") for o, k in all_slots]
        else:
            o = int(base[1:])
            c.append(("&o%d" % o, ("o", o), objs[o]["const"], "bare"))
        c += [("=%d" % q, x["tgt"], x["pc"], "copy") for q, x in enumerate(ptrs) if x["base"] == base and x["tgt"] is not None]
        return rng.choice(c) if c else None

    def acq_site(kind, mode):
        return {"bare": "Addr", "sub": "AddrSub", "copy": "PtrCopy"}[kind] + mode

    init_ptrs = []
    for _ in range(rng.randint(0, 2)):
        base = "int" if (not structs or rng.random() < 0.75) else "T%d" % rng.choice(structs)
        s = src_choice(base)
        if s is None or s[3] == "copy":
            continue
        pc = s[2] or rng.random() < 0.3
        cc = rng.random() < 0.3
        ptrs.append({"tgt": s[1], "pc": pc, "cc": cc, "base": base})
        init_ptrs.append("%s,%d,%d" % (s[0][1:], pc, cc))
    ops = []
    nops = rng.randint(3, 9)
    tries = 0
    while len(ops) < nops and tries < 200:
        tries += 1
        atk = rng.random() < attack
        c = rng.random()
        apply = None
        if c < 0.28:
            o, k = rng.choice(all_slots)
            f = rng.choice("aci")
            u = rng.choice([1, -1]) if f == "i" else rng.randint(1, 9)
            site, viol = DIRECT_SITE[(objs[o]["shape"], f)], prot(o, k)
            if site == "MemberIncDec" and site in avoid:
                continue
            text = "D %s %d %d %d" % (f, o, k, u)
        elif c < 0.34:
            cand = [o for o in range(len(objs)) if objs[o]["shape"] in "at"]
            if not cand:
                continue
            o = rng.choice(cand)
            viol = objs[o]["const"] or any(objs[o]["mconst"])
            site = "WholeConst" if objs[o]["const"] else "WholeMemberConst"
            text = "W %d %s" % (o, " ".join(str(rng.randint(1, 9)) for _ in objs[o]["vals"]))
        elif c < 0.50:
            if len(ptrs) >= 5:
                continue
            base = "int" if (not structs or rng.random() < 0.75) else "T%d" % rng.choice(structs)
            pc = rng.random() < 0.4
            cc = rng.random() < 0.25
            if rng.random() < 0.15 and not cc:
                site, viol, text = "AddrDecl", False, "N %d 0 -" % pc
                newp = {"tgt": None, "pc": pc, "cc": False, "base": "int"}
            else:
                s = src_choice(base)
                if s is None:
                    continue
                if s[2] and not atk:
                    pc = True
                site, viol = acq_site(s[3], "Decl"), (s[2] and not pc)
                text = "N %d %d %s" % (pc, cc, s[0])
                newp = {"tgt": s[1], "pc": pc, "cc": cc, "base": base}
            apply = lambda newp=newp: ptrs.append(newp)
        elif c < 0.60:
            if not ptrs:
                continue
            p = rng.randrange(len(ptrs))
            pt = ptrs[p]
            s = src_choice(pt["base"])
            if s is None or s[0] == "=%d" % p:
                continue
            if pt["cc"]:
                site, viol = "ReseatAssign", True
            else:
                site, viol = acq_site(s[3], "Assign"), (s[2] and not pt["pc"])
            text = "P %d %s" % (p, s[0])
            apply = lambda pt=pt, s=s: pt.__setitem__("tgt", s[1])
        elif c < 0.80:
            live = [p for p, x in enumerate(ptrs) if x["tgt"] is not None]
            if not live:
                continue
            p = rng.choice(live)
            t = ptrs[p]["tgt"]
            if t[0] == "s":
                # (*p)++ is not implemented for a pointer to a struct member ("Invalid pointer target")
                f = rng.choice("ddie" if objs[t[1]]["shape"] != "t" else "dde")
                site, viol = PFORM_SITE[f], ptrs[p]["pc"]
                text = "T %s %d 0 %d" % (f, p, rng.choice([1, -1]) if f == "i" else rng.randint(1, 9))
            else:
                f, m = rng.choice("ma"), rng.randrange(2)
                site, viol = PFORM_SITE[f], ptrs[p]["pc"]
                if not viol and objs[t[1]]["mconst"][m]:
                    site, viol = "PtrMemberConst", True
                text = "T %s %d %d %d" % (f, p, m, rng.randint(1, 9))
        elif c < 0.88:
            cand = [(o, k) for o, k in all_slots if objs[o]["shape"] in "st" and not (objs[o]["shape"] == "t" and objs[o]["mconst"][k])]
            if not cand:
                continue
            o, k = rng.choice(cand)
            param = rng.randint(0, 1)
            rc = 1 if (atk and rng.random() < 0.3) else 0
            if rc:
                site, viol = "ConstRefStore", True
            else:
                site, viol = ("RefParam" if param else "RefLocal"), prot(o, k)
            text = "R %d %d %d %d %d" % (param, rc, o, k, rng.randint(1, 9))
        elif c < 0.94:
            s = src_choice("int")
            # a `T* const` variable cannot be passed to a `T*` parameter at all (call_impl.cpp:5626, stricter than needed)
            if s is None or (s[3] == "copy" and ptrs[int(s[0][1:])]["cc"]) or s[1][0] != "s":
                continue
            site, viol = ("PtrCopyArg" if s[3] == "copy" else "AddrArg"), s[2]
            text = "C %s %d" % (s[0], rng.randint(1, 9))
        else:
            cand = [p for p, x in enumerate(ptrs) if x["tgt"] is not None and x["tgt"][0] == "s" and objs[x["tgt"][1]]["shape"] == "a"]
            if not cand:
                continue
            p = rng.choice(cand)
            _, o, k = ptrs[p]["tgt"]
            ds = [d for d in (1, -1) if 0 <= k + d < len(objs[o]["vals"])]
            if not ds:
                continue
            d = rng.choice(ds)
            f = rng.choice("aci")
            site, viol = MOVE_SITE[f], ptrs[p]["cc"]
            text = "M %s %d %d" % (f, p, d)
            apply = lambda p=p, o=o, k=k, d=d: ptrs[p].__setitem__("tgt", ("s", o, k + d))
        if viol != atk and rng.random() < 0.85:
            continue
        if viol and site in avoid:
            continue
        ops.append(text)
        if apply:
            apply()
    os_ = ";".join("%s,%d,%s,%s" % (ob["shape"], ob["const"], "".join("1" if b else "0" for b in ob["mconst"]) or "-",
                                    " ".join(map(str, ob["vals"]))) for ob in objs)
    globs = tuple(o for o in range(len(objs)) if rng.random() < 0.4)
    return "%s|%s|%s" % (os_, ";".join(init_ptrs), ";".join(ops)), globs


# ====================================================================================================
# CbCore programs (S-expressions for the shared reference interpreter coq/Lang) built around const objects
# ====================================================================================================
import gen_core

ATTACK_FORMS = ["assign", "compound", "elem", "elem-compound", "incdec", "elem-incdec"]


def ref_program(rng, avoid_incdec=True, attack_p=0.8):
    """Globals / locals / statics, some const, read everywhere; then (with probability attack_p) ONE
    mutation attempt on a const object at some nesting position, followed by statements that must
    never run. Operands of the attempt cannot fail and have no effects (the implementation tests the
    target before it evaluates the right-hand side; Ref evaluates the right-hand side first).
    -> (sexpr, info)"""
    g = gen_core.Gen(rng, gen_core.Opts(funcs=0, max_stmts=4, max_depth=2, expr_depth=2))
    r = rng
    globs, gsc, garr, consts, carrs = [], [], [], [], []
    for _ in range(r.randint(1, 3)):
        t = r.choice(["int", "long", "long", "short", "tiny", "uint", "char", "utiny"])
        x = g.var()
        cst = r.random() < 0.6
        lo, hi = gen_core.RANGES[t]
        v = max(lo, min(hi, r.choice([0, 1, 5, 100, hi, lo, -7])))
        globs.append("(G %d %s %d () (%d))" % (cst, t, x, v))
        gsc.append((x, t))
        if cst:
            consts.append((x, "global"))
    for _ in range(r.randint(0, 2)):
        x = g.var()
        nd = r.choice([1, 1, 2])
        dims = [r.randint(2, 3) for _ in range(nd)]
        t = "long" if nd > 1 else r.choice(["int", "long", "short", "tiny"])
        size = dims[0] * (dims[1] if nd > 1 else 1)
        lo, hi = gen_core.RANGES[t]
        cst = r.random() < 0.6
        init = [str(r.randint(max(lo, -50), min(hi, 50))) for _ in range(size)]
        globs.append("(G %d %s %d (%s) (%s))" % (cst, t, x, " ".join(map(str, dims)), " ".join(init)))
        garr.append((x, t, dims, cst))
        if cst:
            carrs.append((x, dims, "global"))
    ro = set(x for x, _ in consts)
    genv = {"scalars": list(gsc), "arrays": list(garr), "ro": set(ro), "callable": [], "calls_ok": False}

    def attack_stmt(kind_pool_scalars, kind_pool_arrays):
        forms = []
        if kind_pool_scalars:
            forms += ["assign", "compound"] + ([] if avoid_incdec else ["incdec"])
        if kind_pool_arrays:
            forms += ["elem"]
            if any(len(d) == 1 for _, d, _ in kind_pool_arrays):
                forms += ["elem-compound"] + ([] if avoid_incdec else ["elem-incdec"])
        if not forms:
            return None, None
        f = r.choice(forms)
        rhs = str(r.choice([0, 1, 2, 3, 7]))
        if f in ("assign", "compound", "incdec"):
            x, where = r.choice(kind_pool_scalars)
            if f == "assign":
                return "(asg (v %d) %s)" % (x, rhs), (f, where)
            if f == "compound":
                return "(casg %s (v %d) %s)" % (r.choice(["+", "-", "*", "&", "|", "^"]), x, rhs), (f, where)
            return "(incdec %d %d (v %d))" % (r.randint(0, 1), r.randint(0, 1), x), (f, where)
        if f == "elem":
            x, dims, where = r.choice(kind_pool_arrays)
            return "(asg (idx %d %s) %s)" % (x, " ".join(str(r.randrange(d)) for d in dims), rhs), (f, where)
        x, dims, where = r.choice([a for a in kind_pool_arrays if len(a[1]) == 1])
        if f == "elem-compound":
            return "(casg %s (idx %d %d) %s)" % (r.choice(["+", "-", "*", "&", "|", "^"]), x, r.randrange(dims[0]), rhs), (f, where)
        return "(incdec %d %d (idx %d %d))" % (r.randint(0, 1), r.randint(0, 1), x, r.randrange(dims[0])), (f, where)

    do_attack = r.random() < attack_p
    where_attack = r.choice(["main", "main", "nested", "loop", "func", "func-local", "static"]) if do_attack else None
    info = {"attack": None}
    funcs = []
    fid = 1
    if where_attack in ("func", "func-local", "static") or r.random() < 0.4:
        p1 = g.var()
        fenv = {"scalars": genv["scalars"] + [(p1, "long")], "arrays": genv["arrays"], "ro": set(ro), "callable": [], "calls_ok": False}
        body = g.stmts(fenv, 1, r.randint(0, 2), False, None)
        sc_pool, ar_pool = list(consts), list(carrs)
        if where_attack in ("func-local", "static") or r.random() < 0.5:
            lx = g.var()
            sta = 1 if where_attack == "static" else 0
            body.append("(decl 1 %d %s %d %s)" % (sta, r.choice(["int", "long", "short"]), lx, r.choice(["3", "(bin + (v %d) 0)" % gsc[0][0] if gsc[0][1] in ("int", "short", "tiny") else "4"])))
            body.append("(print 1 (v %d))" % lx)
            if where_attack in ("func-local", "static"):
                sc_pool, ar_pool = [(lx, where_attack)], []
        if where_attack in ("func", "func-local", "static"):
            a, meta = attack_stmt(sc_pool, ar_pool)
            if a is None:
                where_attack = "main"
            else:
                body.append("(print 1 100)")
                body.append(a)
                body.append("(print 1 101)")
                info["attack"] = meta
        body.append("(ret (bin + (v %d) 1))" % p1)
        funcs.append("(F %d long ((%d long)) (%s))" % (fid, p1, " ".join(body)))
    env = {"scalars": list(genv["scalars"]), "arrays": list(genv["arrays"]), "ro": set(ro), "callable": [], "calls_ok": False}
    main = []
    lconst, lcarr = [], []
    for _ in range(r.randint(1, 3)):
        x = g.var()
        t = r.choice(["int", "long", "short", "tiny", "uint", "bool" if False else "int"])
        cst = r.random() < 0.6
        lo, hi = gen_core.RANGES[t]
        main.append("(decl %d 0 %s %d %d)" % (cst, t, x, max(lo, min(hi, r.choice([0, 1, 9, 120, -3, 40000])))))
        env["scalars"].append((x, t))
        if cst:
            env["ro"].add(x)
            lconst.append((x, "local"))
    if r.random() < 0.6:
        x = g.var()
        n = r.randint(2, 4)
        t = r.choice(["int", "long", "short"])
        cst = r.random() < 0.7
        main.append("(arr %d %s %d (%d) (%s))" % (cst, t, x, n, " ".join(str(r.randint(-9, 9)) for _ in range(n))))
        env["arrays"].append((x, t, [n], cst))
        if cst:
            lcarr.append((x, [n], "local"))
    main += g.stmts(env, 2, r.randint(1, 4))
    # (the call is not made inside println: println re-evaluates an argument that failed - finding C01-println-retry)
    if funcs and (where_attack not in ("func", "func-local", "static")) and r.random() < 0.7:
        cx = g.var()
        main.append("(decl 0 0 long %d (call 1 %d))" % (cx, r.randint(0, 5)))
        main.append("(print 1 (v %d))" % cx)
    if where_attack in ("main", "nested", "loop"):
        a, meta = attack_stmt(consts + lconst, carrs + lcarr)
        if a is not None:
            info["attack"] = meta
            pre = "(print 1 200)"
            if where_attack == "main":
                main += [pre, a]
            elif where_attack == "nested":
                main.append("(if 1 ((block %s (block %s))) ())" % (pre, a))
            else:
                i = g.var()
                k = r.randint(0, 2)
                main.append("(for ((decl 0 0 int %d 0)) (bin < (v %d) 3) ((casg + (v %d) 1)) ((print 1 (v %d)) (if (bin == (v %d) %d) (%s) ())))"
                            % (i, i, i, i, i, k, a))
    elif where_attack in ("func", "func-local", "static"):
        cx = g.var()
        main.append("(decl 0 0 long %d (call 1 %d))" % (cx, r.randint(0, 5)))
        main.append("(print 1 (v %d))" % cx)
    # statements after the attempt: must not run when it was made
    main.append("(print 1 300)")
    for x, _ in (consts + lconst)[:3]:
        main.append("(print 1 (v %d))" % x)
    for x, dims, _ in (carrs + lcarr)[:2]:
        main.append("(print 1 (idx %d %s))" % (x, " ".join("0" for _ in dims)))
    return "(P (%s) (%s) (%s))" % (" ".join(globs), " ".join(funcs), " ".join(main)), info
