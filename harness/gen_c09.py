"""C09 - Cb program templates for the const matrix (object kinds x mutation paths) and the
translation of ConstPtr op scripts (coq/C09/ConstPtr.v) into Cb programs.

A matrix cell is a pair (kind, path). `cell(kind, path, const=True)` returns the Cb program that
declares the object of that kind, prints its observable value, performs the mutation attempt along
that path and prints the value again, or None when the combination is not expressible (e.g. an
element store into a scalar). `const=False` gives the CONTROL twin: the same program with the const
qualifier under test removed; it must run to the end and print the CHANGED value - that is how the
check knows a rejection is due to constness and not to an unsupported construct.
"""

KINDS = ["tiny", "short", "int", "long", "char", "bool", "array", "struct", "member", "global", "param", "ptc", "cptr"]
PATHS = ["assign", "compound", "postinc", "predec", "elem", "memberst", "deref", "arrow", "refparam", "addr_decl",
         "addr_asg", "localref"]

SCALAR_T = {"tiny": "tiny", "short": "short", "int": "int", "long": "long", "char": "char", "bool": "bool",
            "global": "int", "param": "int"}
# initial value, value stored by the attempt (Cb literals)
V0 = {"tiny": "11", "short": "12", "int": "13", "long": "14", "char": "'A'", "bool": "true", "global": "15", "param": "16"}
V1 = {"tiny": "3", "short": "3", "int": "3", "long": "3", "char": "'C'", "bool": "false", "global": "3", "param": "3"}


def _scalar(kind, path, const):
    t = SCALAR_T[kind]
    q = "const " if const else ""
    v0, v1 = V0[kind], V1[kind]
    pre = ""
    decl = "%s%s c = %s;" % (q, t, v0)
    if path == "assign":
        att = "c = %s;" % v1
    elif path == "compound":
        att = "c += 1;" if kind != "bool" else "c &= false;"
    elif path == "postinc":
        att = "c++;"
    elif path == "predec":
        att = "--c;"
    elif path == "deref":
        # the pointer is acquired legally (pointer to const when the object is const); the store is the attempt
        att = "%s%s* p = &c; *p = %s;" % (q, t, v1)
    elif path == "refparam":
        pre = "void mut(%s& r) { r = %s; }\n" % (t, v1)
        att = "mut(c);"
    elif path == "addr_decl":
        att = "%s* p = &c; *p = %s;" % (t, v1)
    elif path == "addr_asg":
        att = "%s* p; p = &c; *p = %s;" % (t, v1)
    elif path == "localref":
        att = "%s& r = c; r = %s;" % (t, v1)
    else:
        return None
    obs = "println(c);"
    if kind == "global":
        return "%s%s\nvoid main() {\n  %s\n  %s\n  %s\n}\n" % (pre, decl, obs, att, obs)
    if kind == "param":
        return "%svoid f(%s%s c) {\n  %s\n  %s\n  %s\n}\nvoid main() {\n  f(%s);\n}\n" % (pre, q, t, obs, att, obs, v0)
    return "%svoid main() {\n  %s\n  %s\n  %s\n  %s\n}\n" % (pre, decl, obs, att, obs)


def _array(path, const):
    q = "const " if const else ""
    pre = ""
    decl = "%sint[3] c = [21, 22, 23];" % q
    if path == "assign":
        att = "c = [4, 5, 6];"
    elif path == "compound":
        att = "c[1] += 1;"
    elif path == "postinc":
        att = "c[1]++;"
    elif path == "predec":
        att = "--c[1];"
    elif path == "elem":
        att = "c[1] = 3;"
    elif path == "deref":
        att = "%sint* p = &c[1]; *p = 3;" % q
    elif path == "refparam":
        pre = "void mut(int[3]& r) { r[1] = 3; }\n"
        att = "mut(c);"
    elif path == "addr_decl":
        att = "int* p = &c[1]; *p = 3;"
    elif path == "addr_asg":
        att = "int* p; p = &c[1]; *p = 3;"
    elif path == "localref":
        att = "int& r = c[1]; r = 3;"
    else:
        return None
    obs = "println(c[0], c[1], c[2]);"
    return "%svoid main() {\n  %s\n  %s\n  %s\n  %s\n}\n" % (pre, decl, obs, att, obs)


def _struct(path, const):
    q = "const " if const else ""
    pre = "struct S { int a; int b; };\n"
    decl = "%sS c = {31, 32};" % q
    if path == "assign":
        att = "S t = {4, 5}; c = t;"
    elif path == "compound":
        att = "c.a += 1;"
    elif path == "postinc":
        att = "c.a++;"
    elif path == "predec":
        att = "--c.a;"
    elif path == "memberst":
        att = "c.a = 3;"
    elif path == "deref":
        att = "%sS* p = &c; (*p).a = 3;" % q
    elif path == "arrow":
        att = "%sS* p = &c; p->a = 3;" % q
    elif path == "refparam":
        pre += "void mut(S& r) { r.a = 3; }\n"
        att = "mut(c);"
    elif path == "addr_decl":
        att = "S* p = &c; p->a = 3;"
    elif path == "addr_asg":
        att = "S* p; p = &c; p->a = 3;"
    elif path == "localref":
        att = "S& r = c; r.a = 3;"
    else:
        return None
    obs = "println(c.a, c.b);"
    return "%svoid main() {\n  %s\n  %s\n  %s\n  %s\n}\n" % (pre, decl, obs, att, obs)


def _member(path, const):
    """a const member of a non-const struct variable"""
    q = "const " if const else ""
    pre = "struct S { %sint a; int b; };\n" % q
    decl = "S c = {41, 42};"
    if path == "assign" or path == "memberst":
        att = "c.a = 3;" if path == "memberst" else "S t = {4, 5}; c = t;"
    elif path == "compound":
        att = "c.a += 1;"
    elif path == "postinc":
        att = "c.a++;"
    elif path == "predec":
        att = "--c.a;"
    elif path == "deref":
        att = "S* p = &c; (*p).a = 3;"
    elif path == "arrow":
        att = "S* p = &c; p->a = 3;"
    elif path == "refparam":
        pre += "void mut(int& r) { r = 3; }\n"
        att = "mut(c.a);"
    elif path == "addr_decl":
        att = "int* p = &c.a; *p = 3;"
    elif path == "addr_asg":
        att = "int* p; p = &c.a; *p = 3;"
    elif path == "localref":
        att = "int& r = c.a; r = 3;"
    else:
        return None
    obs = "println(c.a, c.b);"
    return "%svoid main() {\n  %s\n  %s\n  %s\n  %s\n}\n" % (pre, decl, obs, att, obs)


def _ptc(path, const):
    """the object reached through a pointer to const: `const int* c = &x` (x itself is not const)"""
    q = "const " if const else ""
    pre = ""
    if path in ("memberst", "arrow"):
        pre = "struct S { int a; int b; };\n"
        decl = "S x = {51, 52}; %sS* c = &x;" % q
        obs = "println(x.a, x.b);"
        att = "(*c).a = 3;" if path == "memberst" else "c->a = 3;"
        return "%svoid main() {\n  %s\n  %s\n  %s\n  %s\n}\n" % (pre, decl, obs, att, obs)
    decl = "int x = 53; %sint* c = &x;" % q
    obs = "println(x);"
    if path == "assign" or path == "deref":
        att = "*c = 3;"
        if path == "assign":
            return None          # the same program as `deref`
    elif path == "compound":
        att = "*c += 1;"
    elif path == "postinc":
        att = "(*c)++;"
    elif path == "predec":
        att = "--(*c);"
    elif path == "elem":
        att = "c[0] = 3;"
    elif path == "refparam":
        pre = "void mut(int& r) { r = 3; }\n"
        att = "mut(*c);"
    elif path == "addr_decl":
        att = "int* p = c; *p = 3;"
    elif path == "addr_asg":
        att = "int* p; p = c; *p = 3;"
    elif path == "localref":
        att = "int& r = *c; r = 3;"
    else:
        return None
    return "%svoid main() {\n  %s\n  %s\n  %s\n  %s\n}\n" % (pre, decl, obs, att, obs)


def _cptr(path, const):
    """a const pointer `int* const c = &x[1]`: the protected object is the pointer itself (its target)"""
    q = " const" if const else ""
    decl = "int[3] x = [61, 62, 63]; int y = 64; int*%s c = &x[1];" % q
    obs = "println(*c);"
    if path == "assign":
        att = "c = &y;"
    elif path == "compound":
        att = "c += 1;"
    elif path == "postinc":
        att = "c++;"
    elif path == "predec":
        att = "--c;"
    elif path == "addr_decl":
        att = "int** pp = &c; *pp = &y;"
    elif path == "addr_asg":
        att = "int** pp; pp = &c; *pp = &y;"
    else:
        return None
    return "void main() {\n  %s\n  %s\n  %s\n  %s\n}\n" % (decl, obs, att, obs)


def cell(kind, path, const=True):
    if kind in SCALAR_T:
        return _scalar(kind, path, const)
    if kind == "array":
        return _array(path, const)
    if kind == "struct":
        return _struct(path, const)
    if kind == "member":
        return _member(path, const)
    if kind == "ptc":
        return _ptc(path, const)
    if kind == "cptr":
        return _cptr(path, const)
    raise KeyError(kind)


def classify(rc, out, err):
    """outcome of one matrix program: (class, first line, rest)"""
    lines = out.split("\n")
    if lines and lines[-1] == "":
        lines = lines[:-1]
    if rc == 1 and len(lines) == 1:
        return "rejected"
    if rc == 0 and len(lines) == 2:
        return "accepted-unchanged" if lines[0] == lines[1] else "accepted-changed"
    if rc == 1 and len(lines) == 0:
        return "rejected-early"          # failed before the first observation (parse error / declaration rejected)
    if rc == 1 and len(lines) == 2:
        return "late-error-unchanged" if lines[0] == lines[1] else "late-error-changed"
    return "other(rc=%d,lines=%d)" % (rc, len(lines))


# ====================================================================================================
# Scripts of the machine coq/C09/ConstPtr.v (text format documented in ocaml/c09_driver.ml)
# ====================================================================================================

def parse_script(line):
    os_, ps_, ops_ = line.split("|")
    objs = []
    for it in [x.strip() for x in os_.split(";") if x.strip()]:
        sh, c, mc, vs = it.split(",")
        vals = [int(v) for v in vs.split()]
        objs.append({"shape": sh, "const": c == "1", "mconst": [] if mc == "-" else [b == "1" for b in mc], "vals": vals})
    ptrs = []
    for it in [x.strip() for x in ps_.split(";") if x.strip()]:
        t, pc, cc = it.split(",")
        ptrs.append({"tgt": parse_tgt(t), "pc": pc == "1", "cc": cc == "1"})
    ops = [x.strip().split() for x in ops_.split(";") if x.strip()]
    return objs, ptrs, ops


def parse_tgt(t):
    if t == "n":
        return None
    if t[0] == "o":
        return ("o", int(t[1:]))
    o, k = t[1:].split(".")
    return ("s", int(o), int(k))


def parse_snap(s):
    vs, ts = s.split("#")
    vals = [[int(v) for v in o.split(",")] if o else [] for o in vs.split("/")] if vs else []
    tg = [parse_tgt(t) for t in ts.split(",")] if ts else []
    return vals, tg


def _desig(objs, o, k):
    sh = objs[o]["shape"]
    if sh == "s":
        return "o%d" % o
    if sh == "a":
        return "o%d[%d]" % (o, k)
    return "o%d.m%d" % (o, k)


def _src_text(objs, src):
    if src[0] == "=":
        return "p%s" % src[1:]
    t = parse_tgt(src[1:])
    if t[0] == "o":
        return "&o%d" % t[1]
    return "&" + _desig(objs, t[1], t[2])


def _src_base(objs, ptr_base, src):
    if src[0] == "=":
        q = int(src[1:])
        return ptr_base[q] if q < len(ptr_base) else "int"
    t = parse_tgt(src[1:])
    return "T%d" % t[1] if t[0] == "o" else "int"


class RenderError(Exception):
    """the script is outside what can be written as one Cb program (scoping), never a verdict"""


def _root_obj(handles, h):
    """object a reference / alias handle finally refers to"""
    return handles[h]["obj"]


def view_items(objs, handles, visible, frame, globs, tgts, aliased, mat=()):
    """what one observation prints: list of (text, getter) where getter(vals, tgts) -> list of ints"""
    items = []
    for o, ob in enumerate(objs):
        if frame > 0 and (o not in globs or (ob["shape"] == "a" and o in aliased)):
            continue
        for k in range(len(ob["vals"])):
            items.append((_desig(objs, o, k), ("slot", o, k)))
    for h in visible:
        hd = handles[h]
        if hd["kind"] == "p":
            t = tgts[h] if h < len(tgts) else None
            if t is None:
                continue
            if frame > 0 and objs[t[1]]["shape"] == "a" and t[1] in aliased:
                continue
            items.append(("*p%d" % h if t[0] == "s" else "p%d->m0" % h, ("ptr", h)))
        else:
            o = hd["obj"]
            sh = objs[o]["shape"]
            if sh == "s":
                items.append(("r%d" % h, ("slot", o, 0)))
            elif sh == "t":
                # reading r.m changes what the implementation does with a later r.m = v (finding C09-const-ref-not-enforced):
                # members are only read through a reference after the script said so (op E)
                if h in mat:
                    for k in range(len(objs[o]["vals"])):
                        items.append(("r%d.m%d" % (h, k), ("slot", o, k)))
            else:
                for k in range(len(objs[o]["vals"])):
                    items.append(("r%d[%d]" % (h, k), ("slot", o, k)))
    return items


def view_expected(items, vals, tgts):
    out = []
    for _, g in items:
        if g[0] == "slot":
            out.append(str(vals[g[1]][g[2]]))
        elif g[0] == "lit":
            out.append(str(g[1]))
        else:
            t = tgts[g[1]]
            out.append(str(vals[t[1]][t[2]] if t[0] == "s" else vals[t[1]][0]))
    return " ".join(out)


def render_script(line, free_snaps, globs=()):
    """Cb program for a script -> (program text, plan). `free_snaps` = the snapshots of the FREE run (one per op):
    they give the pointer structure after every op, which fixes what each observation prints. The plan is the list of
    views (one for the start state, one per op, one after the calls have returned when the script entered callees);
    expected_transcript turns a policy's run into the stdout it demands with it.
    Ops H (par = 1) and Q open a callee: the rest of the script is its body (chains across call boundaries)."""
    objs, ptrs, ops = parse_script(line)
    globs = set(globs)
    pre, gl = [], []
    for o, ob in enumerate(objs):
        if ob["shape"] == "t":
            pre.append("struct T%d { %s };" % (o, " ".join("%sint m%d;" % ("const " if (k < len(ob["mconst"]) and ob["mconst"][k]) else "", k)
                                                           for k in range(len(ob["vals"])))))
    frames = [{"head": "void main()", "body": [], "visible": []}]
    for o, ob in enumerate(objs):
        q = "const " if ob["const"] else ""
        if ob["shape"] == "s":
            d = "%sint o%d = %d;" % (q, o, ob["vals"][0])
        elif ob["shape"] == "a":
            d = "%sint[%d] o%d = [%s];" % (q, len(ob["vals"]), o, ", ".join(map(str, ob["vals"])))
        else:
            d = "%sT%d o%d = {%s};" % (q, o, o, ", ".join(map(str, ob["vals"])))
        (gl if o in globs else frames[0]["body"]).append(d)
    handles = []          # kind p|r|a, base (pointee type of pointers), obj (references / aliases), frame
    for p, pt in enumerate(ptrs):
        t = pt["tgt"]
        base = "int" if (t is None or t[0] == "s") else "T%d" % t[1]
        handles.append({"kind": "p", "base": base, "frame": 0})
        frames[0]["visible"].append(p)
        init = "" if t is None else " = " + ("&o%d" % t[1] if t[0] == "o" else "&" + _desig(objs, t[1], t[2]))
        frames[0]["body"].append("%s%s*%s p%d%s;" % ("const " if pt["pc"] else "", base, " const" if pt["cc"] else "", p, init))
    aliased = set()
    mat = set()
    plan = []

    def cur():
        return frames[-1]

    def depth():
        return len(frames) - 1

    def observe(tgts):
        items = view_items(objs, handles, cur()["visible"], depth(), globs, tgts, aliased, mat)
        if not items:
            items = [("0", ("lit", 0))]
        plan.append(items)
        cur()["body"].append("println(%s);" % ", ".join(t for t, _ in items))

    def need_obj(o):
        if depth() > 0 and o not in globs:
            raise RenderError("object o%d is not visible in the callee" % o)
        if depth() > 0 and o in aliased:
            raise RenderError("array o%d is aliased by an array parameter" % o)

    def need_h(h, kinds):
        if h >= len(handles) or h not in cur()["visible"]:
            raise RenderError("handle %d is not visible here" % h)
        if handles[h]["kind"] not in kinds:
            raise RenderError("handle %d has the wrong kind" % h)

    def src_text(src):
        if src[0] == "=":
            need_h(int(src[1:]), "p")
            return "p%s" % src[1:]
        t = parse_tgt(src[1:])
        need_obj(t[1])
        return "&o%d" % t[1] if t[0] == "o" else "&" + _desig(objs, t[1], t[2])

    def src_base(src):
        if src[0] == "=":
            q = int(src[1:])
            return handles[q]["base"] if q < len(handles) else "int"
        t = parse_tgt(src[1:])
        return "T%d" % t[1] if t[0] == "o" else "int"

    observe([pt["tgt"] for pt in ptrs])
    nfun = 0
    for i, w in enumerate(ops):
        k = w[0]
        body = cur()["body"]
        if k == "D":
            need_obj(int(w[2]))
            d = _desig(objs, int(w[2]), int(w[3]))
            u = int(w[4])
            if w[1] == "a":
                st = "%s = %d;" % (d, u)
            elif w[1] == "c":
                st = "%s %s= %d;" % (d, "+" if u >= 0 else "-", abs(u))
            else:
                st = "%s++;" % d if u >= 0 else "--%s;" % d
        elif k == "W":
            o = int(w[1])
            need_obj(o)
            vs = ", ".join(w[2:])
            if objs[o]["shape"] == "a":
                st = "o%d = [%s];" % (o, vs)
            else:
                st = "T%d tmp%d = {%s}; o%d = tmp%d;" % (o, i, vs, o, i)
        elif k == "N":
            p = len(handles)
            if w[3] == "-":
                base = "int"
                for w2 in ops[i + 1:]:          # the first assignment fixes the pointee type
                    if w2[0] == "P" and int(w2[1]) == p:
                        base = src_base(w2[2])
                        break
                init = ""
            else:
                base = src_base(w[3])
                init = " = " + src_text(w[3])
            handles.append({"kind": "p", "base": base, "frame": depth()})
            cur()["visible"].append(p)
            st = "%s%s*%s p%d%s;" % ("const " if w[1] == "1" else "", base, " const" if w[2] == "1" else "", p, init)
        elif k == "P":
            need_h(int(w[1]), "p")
            st = "p%s = %s;" % (w[1], src_text(w[2]))
        elif k == "T":
            p, m, u = w[2], w[3], int(w[4])
            need_h(int(p), "p")
            st = {"d": "*p%s = %d;" % (p, u),
                  "i": ("(*p%s)++;" % p) if u >= 0 else ("--(*p%s);" % p),
                  "e": "*(p%s + 0) = %d;" % (p, u),
                  "m": "(*p%s).m%s = %d;" % (p, m, u),
                  "a": "p%s->m%s = %d;" % (p, m, u)}[w[1]]
        elif k == "R":
            o, kk, u = int(w[3]), int(w[4]), int(w[5])
            need_obj(o)
            q = "const " if w[2] == "1" else ""
            ty = "int" if objs[o]["shape"] == "s" else "T%d" % o
            acc = "r" if objs[o]["shape"] == "s" else "r.m%d" % kk
            if w[1] == "1":
                nfun += 1
                pre.append("void rf%d(%s%s& r) { %s = %d; }" % (nfun, q, ty, acc, u))
                st = "rf%d(o%d);" % (nfun, o)
            else:
                st = "%s%s& rr%d = o%d; %s = %d;" % (q, ty, i, o, acc.replace("r", "rr%d" % i, 1), u)
        elif k == "C":
            nfun += 1
            pre.append("void pf%d(int* q) { *q = %d; }" % (nfun, int(w[2])))
            st = "pf%d(%s);" % (nfun, src_text(w[1]))
        elif k == "M":
            p, d = w[2], int(w[3])
            need_h(int(p), "p")
            if w[1] == "a":
                st = "p%s = p%s %s %d;" % (p, p, "+" if d >= 0 else "-", abs(d))
            elif w[1] == "c":
                st = "p%s %s= %d;" % (p, "+" if d >= 0 else "-", abs(d))
            else:
                st = "p%s++;" % p if d >= 0 else "--p%s;" % p
        elif k == "H":
            h = len(handles)
            par, rc = w[1] == "1", w[2] == "1"
            if w[3][0] == "o":
                o = int(w[3][1:])
                need_obj(o)
                arg = "o%d" % o
            else:
                j = int(w[3][1:])
                need_h(j, "ra")
                o = handles[j]["obj"]
                arg = "r%d" % j
            sh = objs[o]["shape"]
            q = "const " if rc else ""
            if sh == "a":
                if not par:
                    raise RenderError("local array reference")
                ty, kind = "%sint[%d] r%d" % (q, len(objs[o]["vals"]), h), "a"
            else:
                ty, kind = "%s%s& r%d" % (q, "int" if sh == "s" else "T%d" % o, h), "r"
            handles.append({"kind": kind, "obj": o, "frame": depth() + (1 if par else 0)})
            if par:
                if kind == "a":
                    aliased.add(o)
                body.append("cf%d(%s);" % (h, arg))
                frames.append({"head": "void cf%d(%s)" % (h, ty), "body": [], "visible": [h]})
                st = None
            else:
                cur()["visible"].append(h)
                st = "%s = %s;" % (ty, arg)
        elif k == "S":
            h, m, u = int(w[2]), int(w[3]), int(w[4])
            need_h(h, "ra")
            sh = objs[handles[h]["obj"]]["shape"]
            d = "r%d" % h if sh == "s" else ("r%d.m%d" % (h, m) if sh == "t" else "r%d[%d]" % (h, m))
            if w[1] == "a":
                st = "%s = %d;" % (d, u)
            elif w[1] == "c":
                st = "%s %s= %d;" % (d, "+" if u >= 0 else "-", abs(u))
            else:
                st = "%s++;" % d if u >= 0 else "--%s;" % d
        elif k == "X":
            h = int(w[1])
            need_h(h, "a")
            st = "r%d = [%s];" % (h, ", ".join(w[2:]))
        elif k == "E":
            h = int(w[1])
            need_h(h, "r")
            if objs[handles[h]["obj"]]["shape"] != "t":
                raise RenderError("E on a non-struct reference")
            mat.add(h)
            st = None
        elif k == "Q":
            p = len(handles)
            base = src_base(w[2])
            arg = src_text(w[2])
            handles.append({"kind": "p", "base": base, "frame": depth() + 1})
            body.append("cf%d(%s);" % (p, arg))
            frames.append({"head": "void cf%d(%s%s* p%d)" % (p, "const " if w[1] == "1" else "", base, p), "body": [], "visible": [p]})
            st = None
        else:
            raise ValueError(w)
        if st is not None:
            cur()["body"].append(st)
        if i < len(free_snaps):
            observe(parse_snap(free_snaps[i])[1])
    if depth() > 0:
        # after the calls have returned: everything main can see
        tg = parse_snap(free_snaps[-1])[1] if free_snaps and len(free_snaps) == len(ops) else [pt["tgt"] for pt in ptrs]
        items = view_items(objs, handles, frames[0]["visible"], 0, globs, tg, set(), mat)
        plan.append(items)
        frames[0]["body"].append("println(%s);" % ", ".join(t for t, _ in items))
    text = "\n".join(pre + gl) + ("\n" if pre or gl else "")
    for fr in reversed(frames):
        text += fr["head"] + " {\n" + "\n".join("  " + b for b in fr["body"]) + "\n}\n"
    return text, {"views": plan, "nops": len(ops), "deep": depth() > 0}


def expected_transcript(run, init_snap, plan):
    """(stdout, failed?) a policy's run demands: one line for the start state, one per accepted op, and - when the
    script entered callees and ran to its end - one line printed by main after they returned"""
    outcome, snaps = run
    views = plan["views"]
    states = [parse_snap(init_snap)] + [parse_snap(s) for s in snaps]
    lines = [view_expected(views[j], *st) for j, st in enumerate(states)]
    if plan["deep"] and outcome == "done" and len(snaps) == plan["nops"]:
        lines.append(view_expected(views[-1], *states[-1]))
    return "\n".join(lines) + "\n", outcome.startswith("rej")


def chain_unsupported(family, name):
    """chains the implementation cannot express at all (the check only demands that nothing protected changes there):
    `const S*` parameters ("Cannot find struct definition for pointer base type: const S"), and a `const T*` VARIABLE
    passed to a `const T*` parameter (refused although nothing is wrong with it: the parameter's own pointee const is
    never recorded, call_impl.cpp then sees const -> non-const)."""
    if family != "ptr":
        return None
    root, links, _ = name.split(":")
    ls = links.split("-")
    for i, l in enumerate(ls):
        if l == "Pc" and root.endswith("struct"):
            return "const S* parameter"
        if l == "Pc" and i > 0 and ls[i - 1] in ("Dc", "Ac"):
            return "const T* variable passed to a const T* parameter"
    return None


def parse_model_output(text):
    """-> list of dicts {spec:(outcome,[snaps]), mech:..., free:..., inv:bool, init:snap} in input order"""
    res, cur = [], {}
    for l in text.split("\n"):
        w = l.split(" ")
        if w[0] in ("SPEC", "MECH", "FREE", "OBS"):
            cur[w[0].lower()] = (w[1], w[2:])
        elif w[0] == "INV":
            cur["inv"] = w[1] == "1"
            cur["init"] = w[2]
            res.append(cur)
            cur = {}
        elif w[0] == "ERROR":
            res.append({"error": l})
            cur = {}
    return res


# ---------------------------------------------------------------------------------------------------- random scripts
DIRECT_SITE = {("s", "a"): "AssignVar", ("s", "c"): "CompoundVar", ("s", "i"): "IncDecVar",
               ("a", "a"): "ElemStore", ("a", "c"): "ElemCompound", ("a", "i"): "ElemIncDec",
               ("t", "a"): "MemberStore", ("t", "c"): "MemberCompound", ("t", "i"): "MemberIncDec"}
PFORM_SITE = {"d": "DerefStore", "i": "DerefIncDec", "e": "DerefExprStore", "m": "DerefMember", "a": "ArrowStore"}
MOVE_SITE = {"a": "ReseatAssign", "c": "ReseatCompound", "i": "ReseatIncDec"}


def via_site(par, hpar, tprot):
    if par:
        return "RefParamViaParam" if hpar else "RefParamViaLocal"
    if tprot:
        return "RefLocalViaParam" if hpar else "RefLocalViaLocal"
    return "RefLocalCRef"


def random_script(rng, attack=0.35, avoid=(), chains=0.5):
    """A well-formed script: objects, initial pointers that respect the discipline, 3..10 operations.
    With probability `attack` an operation goes for something protected. `avoid` = names of check sites
    (ocaml/c09_driver.ml site_s) through which no attack is made - one per recorded finding; with
    "MemberIncDec" in it `s.m++` is not used at all (the implementation loses the new value).
    With probability `chains` the script also derives handles from handles (references, array parameters, pointer
    parameters) and enters callees (ops H with par = 1 and Q: the rest of the script is the callee's body; only global
    objects and the handles created in the callee are visible there)."""
    objs = []
    for i in range(rng.randint(2, 4)):
        sh = rng.choice("ssaat")
        n = {"s": 1, "a": rng.randint(2, 3), "t": 2}[sh]
        cst = rng.random() < 0.5
        mc = []
        if sh == "t":
            mc = [rng.random() < 0.3, False]
        objs.append({"shape": sh, "const": cst, "mconst": mc, "vals": [10 * (i + 1) + k for k in range(n)]})
    with_chains = rng.random() < chains
    globs = tuple(o for o in range(len(objs)) if rng.random() < (0.7 if with_chains else 0.4))

    def prot(o, k):
        return objs[o]["const"] or (k < len(objs[o]["mconst"]) and objs[o]["mconst"][k])

    structs = [o for o in range(len(objs)) if objs[o]["shape"] == "t"]
    hs = []            # handles: kind p|r|a, tgt, pc, cc, base, frame, par, obj, p1, pd, mat
    state = {"depth": 0}
    aliased = set()
    # Whether `r.m = v` through a reference to a CONST struct is refused depends on the history of the struct's member
    # entries (finding C09-const-ref-not-enforced: refused only once the member has been read through some reference or
    # pointer). The machine knows two histories - nothing read / read through this very reference just before - and the
    # scripts stay on them: `touched` = structs whose members may have been read or written through some other handle.
    touched = set()
    mat_by = {}

    def vis_obj(o):
        return state["depth"] == 0 or (o in globs and o not in aliased)

    def vis_h(kinds):
        return [j for j, x in enumerate(hs) if x["frame"] == state["depth"] and x["kind"] in kinds]

    def slots():
        return [(o, k) for o in range(len(objs)) if vis_obj(o) for k in range(len(objs[o]["vals"]))]

    def src_choice(base):
        """a pointer source of the given pointee type: (text, target, is-const-source, addr-kind)"""
        c = []
        if base == "int":
            c += [("&s%d.%d" % (o, k), ("s", o, k), prot(o, k), "bare" if objs[o]["shape"] == "s" else "sub") for o, k in slots()]
        else:
            o = int(base[1:])
            if vis_obj(o):
                c.append(("&o%d" % o, ("o", o), objs[o]["const"], "bare"))
        c += [("=%d" % q, hs[q]["tgt"], hs[q]["pc"], "copy") for q in vis_h("p") if hs[q]["base"] == base and hs[q]["tgt"] is not None]
        return rng.choice(c) if c else None

    def acq_site(kind, mode):
        return {"bare": "Addr", "sub": "AddrSub", "copy": "PtrCopy"}[kind] + mode

    def new_ptr(tgt, pc, cc, base, par=False):
        if tgt is not None and objs[tgt[1]]["shape"] == "t":
            touched.add(tgt[1])
        return {"kind": "p", "tgt": tgt, "pc": pc, "cc": cc, "base": base, "frame": state["depth"], "par": par}

    init_ptrs = []
    for _ in range(rng.randint(0, 2)):
        base = "int" if (not structs or rng.random() < 0.75) else "T%d" % rng.choice(structs)
        s = src_choice(base)
        if s is None or s[3] == "copy":
            continue
        pc = s[2] or rng.random() < 0.3
        cc = rng.random() < 0.3
        hs.append(new_ptr(s[1], pc, cc, base))
        init_ptrs.append("%s,%d,%d" % (s[0][1:], pc, cc))
    ops = []
    nops = rng.randint(3, 10 if with_chains else 9)
    tries = 0
    while len(ops) < nops and tries < 300:
        tries += 1
        atk = rng.random() < attack
        apply = None
        if with_chains and rng.random() < 0.6:
            # ------------------------------------------------------------ handles derived from handles, callees
            c = rng.random()
            if c < 0.34:
                # bind a reference / array parameter to a bare variable or through an existing one
                srcs = [("o", o) for o in range(len(objs)) if vis_obj(o)] + [("h", j) for j in vis_h("ra")] * 2
                if not srcs:
                    continue
                kind, x = rng.choice(srcs)
                o = x if kind == "o" else hs[x]["obj"]
                sh = objs[o]["shape"]
                par = rng.random() < 0.5 or sh == "a"
                if par and state["depth"] >= 3:
                    continue
                rc = rng.random() < 0.4
                if sh == "a":
                    if kind == "o":
                        p1, pd = objs[o]["const"], False
                    else:
                        p1, pd = hs[x]["pc"], hs[x]["p1"] or hs[x]["pd"]
                    site, viol = "AddrDecl", False
                    newh = {"kind": "a", "obj": o, "pc": rc, "p1": p1, "pd": pd, "par": True}
                else:
                    tprot = objs[o]["const"] if sh == "t" else prot(o, 0)
                    if kind == "o":
                        site, viol = ("RefParam" if par else "RefLocal"), (tprot and not rc)
                    else:
                        site, viol = via_site(par, hs[x]["par"], tprot), ((hs[x]["pc"] or tprot) and not rc)
                    if (viol or (tprot and not atk)) and not atk:
                        rc, viol = True, False
                    newh = {"kind": "r", "obj": o, "pc": rc, "par": par, "mat": False}
                text = "H %d %d %s%d" % (par, rc, kind, x)

                def apply(newh=newh, par=par, o=o, sh=sh):
                    if par:
                        state["depth"] += 1
                        if sh == "a":
                            aliased.add(o)
                    newh["frame"] = state["depth"]
                    hs.append(newh)
            elif c < 0.64:
                cand = vis_h("ra")
                if not cand:
                    continue
                j = rng.choice(cand)
                h = hs[j]
                o = h["obj"]
                sh = objs[o]["shape"]
                if h["kind"] == "a":
                    if rng.random() < 0.2:
                        site = "AliasOwnConst" if h["pc"] else ("AliasParentWhole" if h["p1"] else "AliasDeep")
                        viol = h["pc"] or h["p1"] or h["pd"]
                        text = "X %d %s" % (j, " ".join(str(rng.randint(1, 9)) for _ in objs[o]["vals"]))
                    else:
                        f = rng.choice("aci")
                        m = rng.randrange(len(objs[o]["vals"]))
                        site = "AliasOwnConst" if h["pc"] else (("AliasParentIncDec" if f == "i" else "AliasParentStore") if h["p1"] else "AliasDeep")
                        viol = h["pc"] or h["p1"] or h["pd"]
                        text = "S %s %d %d %d" % (f, j, m, rng.choice([1, -1]) if f == "i" else rng.randint(1, 9))
                else:
                    f = rng.choice("ac")
                    m = 0 if sh == "s" else rng.randrange(2)
                    if sh == "t" and objs[o]["const"]:
                        if o in touched or mat_by.get(o, set()) - {j}:
                            continue
                        site, viol = ("RefStructRead" if h["mat"] else "RefStructFresh"), True
                        apply = lambda o=o: touched.add(o)
                    elif h["pc"]:
                        site, viol = "ConstRefStore", True
                    elif sh == "t" and objs[o]["mconst"][m]:
                        site, viol = "RefMemberConst", True
                    else:
                        site, viol = "ConstRefStore", False
                    text = "S %s %d %d %d" % (f, j, m, rng.randint(1, 9))
            elif c < 0.72:
                cand = [j for j in vis_h("r") if objs[hs[j]["obj"]]["shape"] == "t" and not hs[j]["mat"]]
                if not cand:
                    continue
                j = rng.choice(cand)
                site, viol, text = "AddrDecl", atk, "E %d" % j       # (no test involved; `viol = atk` keeps it)
                if hs[j]["obj"] in touched or mat_by.get(hs[j]["obj"]):
                    continue

                def apply(j=j):
                    hs[j]["mat"] = True
                    mat_by.setdefault(hs[j]["obj"], set()).add(j)
            else:
                # pointer parameter of a further callee
                if state["depth"] >= 3:
                    continue
                pc = rng.random() < 0.4
                base = "int" if (pc or not structs or rng.random() < 0.75) else "T%d" % rng.choice(structs)
                s = src_choice(base)
                if s is None:
                    continue
                if s[3] == "copy":
                    q = hs[int(s[0][1:])]
                    # stricter than needed, never generated: a `T* const` variable to any pointer parameter; a `const T*`
                    # VARIABLE to a `const T*` parameter (the parameter's own pointee const is never recorded)
                    if q["cc"] or (pc and q["pc"] and not q["par"]):
                        continue
                if s[2] and not atk and base == "int":
                    pc = True
                    if s[3] == "copy" and not hs[int(s[0][1:])]["par"]:
                        continue
                if s[3] == "copy":
                    site = "PtrCopyArgParam" if hs[int(s[0][1:])]["par"] else "PtrCopyArg"
                else:
                    site = "AddrArg"
                viol = s[2] and not pc
                text = "Q %d %s" % (pc, s[0])
                newp = new_ptr(s[1], pc, False, base, par=True)

                def apply(newp=newp):
                    state["depth"] += 1
                    newp["frame"] = state["depth"]
                    hs.append(newp)
        else:
            c = rng.random()
            if c < 0.28:
                sl = slots()
                if not sl:
                    continue
                o, k = rng.choice(sl)
                f = rng.choice("aci")
                u = rng.choice([1, -1]) if f == "i" else rng.randint(1, 9)
                site, viol = DIRECT_SITE[(objs[o]["shape"], f)], prot(o, k)
                if site == "MemberIncDec" and site in avoid:
                    continue
                text = "D %s %d %d %d" % (f, o, k, u)
            elif c < 0.34:
                cand = [o for o in range(len(objs)) if objs[o]["shape"] in "at" and vis_obj(o)]
                if not cand:
                    continue
                o = rng.choice(cand)
                viol = objs[o]["const"] or any(objs[o]["mconst"])
                site = "WholeConst" if objs[o]["const"] else "WholeMemberConst"
                text = "W %d %s" % (o, " ".join(str(rng.randint(1, 9)) for _ in objs[o]["vals"]))
            elif c < 0.50:
                if len(vis_h("p")) >= 5:
                    continue
                base = "int" if (not structs or rng.random() < 0.75) else "T%d" % rng.choice(structs)
                pc = rng.random() < 0.4
                cc = rng.random() < 0.25
                if rng.random() < 0.15 and not cc:
                    site, viol, text = "AddrDecl", False, "N %d 0 -" % pc
                    newp = new_ptr(None, pc, False, "int")
                else:
                    s = src_choice(base)
                    if s is None:
                        continue
                    if s[2] and not atk:
                        pc = True
                    site, viol = acq_site(s[3], "Decl"), (s[2] and not pc)
                    text = "N %d %d %s" % (pc, cc, s[0])
                    newp = new_ptr(s[1], pc, cc, base)
                apply = lambda newp=newp: hs.append(newp)
            elif c < 0.60:
                cand = vis_h("p")
                if not cand:
                    continue
                p = rng.choice(cand)
                pt = hs[p]
                s = src_choice(pt["base"])
                if s is None or s[0] == "=%d" % p:
                    continue
                if objs[s[1][1]]["shape"] == "t":
                    touched.add(s[1][1])
                if pt["par"] and pt["pc"] and s[2]:
                    # refused although nothing is wrong with it (the parameter's own pointee const is never recorded): never generated
                    continue
                if pt["cc"]:
                    site, viol = "ReseatAssign", True
                else:
                    site, viol = acq_site(s[3], "Assign"), (s[2] and not pt["pc"])
                text = "P %d %s" % (p, s[0])
                apply = lambda pt=pt, s=s: pt.__setitem__("tgt", s[1])
            elif c < 0.80:
                live = [p for p in vis_h("p") if hs[p]["tgt"] is not None]
                if not live:
                    continue
                p = rng.choice(live)
                t = hs[p]["tgt"]
                if state["depth"] > 0 and objs[t[1]]["shape"] == "a" and t[1] in aliased:
                    continue
                if t[0] == "s":
                    # (*p)++ is not implemented for a pointer to a struct member ("Invalid pointer target")
                    f = rng.choice("ddie" if objs[t[1]]["shape"] != "t" else "dde")
                    site, viol = PFORM_SITE[f], hs[p]["pc"]
                    text = "T %s %d 0 %d" % (f, p, rng.choice([1, -1]) if f == "i" else rng.randint(1, 9))
                else:
                    f, m = rng.choice("ma"), rng.randrange(2)
                    site, viol = PFORM_SITE[f], hs[p]["pc"]
                    if not viol and objs[t[1]]["mconst"][m]:
                        site, viol = "PtrMemberConst", True
                    text = "T %s %d %d %d" % (f, p, m, rng.randint(1, 9))
                if hs[p]["par"] and hs[p]["pc"]:
                    site = "PtcParamStore"
            elif c < 0.88:
                cand = [(o, k) for o, k in slots() if objs[o]["shape"] in "st" and not (objs[o]["shape"] == "t" and objs[o]["mconst"][k])]
                if not cand:
                    continue
                o, k = rng.choice(cand)
                param = rng.randint(0, 1)
                rc = 1 if (atk and rng.random() < 0.3) else 0
                if rc and objs[o]["shape"] == "t" and objs[o]["const"] and (o in touched or mat_by.get(o)):
                    continue
                if rc:
                    if objs[o]["shape"] == "t":
                        touched.add(o)
                    site, viol = "ConstRefStore", True
                else:
                    site, viol = ("RefParam" if param else "RefLocal"), prot(o, k)
                text = "R %d %d %d %d %d" % (param, rc, o, k, rng.randint(1, 9))
            elif c < 0.94:
                s = src_choice("int")
                # a `T* const` variable cannot be passed to a `T*` parameter at all (call_impl.cpp:5626, stricter than needed)
                if s is None or (s[3] == "copy" and hs[int(s[0][1:])]["cc"]) or s[1][0] != "s":
                    continue
                site, viol = ("PtrCopyArg" if s[3] == "copy" else "AddrArg"), s[2]
                if s[3] == "copy" and hs[int(s[0][1:])]["par"]:
                    site = "PtrCopyArgParam"
                text = "C %s %d" % (s[0], rng.randint(1, 9))
            else:
                cand = [p for p in vis_h("p") if hs[p]["tgt"] is not None and hs[p]["tgt"][0] == "s" and objs[hs[p]["tgt"][1]]["shape"] == "a"
                        and not (state["depth"] > 0 and hs[p]["tgt"][1] in aliased)]
                if not cand:
                    continue
                p = rng.choice(cand)
                _, o, k = hs[p]["tgt"]
                ds = [d for d in (1, -1) if 0 <= k + d < len(objs[o]["vals"])]
                if not ds:
                    continue
                d = rng.choice(ds)
                f = rng.choice("aci")
                site, viol = MOVE_SITE[f], hs[p]["cc"]
                text = "M %s %d %d" % (f, p, d)
                apply = lambda p=p, o=o, k=k, d=d: hs[p].__setitem__("tgt", ("s", o, k + d))
        if viol != atk and rng.random() < 0.85:
            continue
        if viol and site in avoid:
            continue
        ops.append(text)
        if apply:
            apply()
    os_ = ";".join("%s,%d,%s,%s" % (ob["shape"], ob["const"], "".join("1" if b else "0" for b in ob["mconst"]) or "-",
                                    " ".join(map(str, ob["vals"]))) for ob in objs)
    return "%s|%s|%s" % (os_, ";".join(init_ptrs), ";".join(ops)), globs


# ====================================================================================================
# CbCore programs (S-expressions for the shared reference interpreter coq/Lang) built around const objects
# ====================================================================================================
import gen_core

ATTACK_FORMS = ["assign", "compound", "elem", "elem-compound", "incdec", "elem-incdec"]


def ref_program(rng, avoid_incdec=True, attack_p=0.8):
    """Globals / locals / statics, some const, read everywhere; then (with probability attack_p) ONE
    mutation attempt on a const object at some nesting position, followed by statements that must
    never run. Operands of the attempt cannot fail and have no effects (the implementation tests the
    target before it evaluates the right-hand side; Ref evaluates the right-hand side first).
    -> (sexpr, info)"""
    g = gen_core.Gen(rng, gen_core.Opts(funcs=0, max_stmts=4, max_depth=2, expr_depth=2))
    r = rng
    globs, gsc, garr, consts, carrs = [], [], [], [], []
    for _ in range(r.randint(1, 3)):
        t = r.choice(["int", "long", "long", "short", "tiny", "uint", "char", "utiny"])
        x = g.var()
        cst = r.random() < 0.6
        lo, hi = gen_core.RANGES[t]
        v = max(lo, min(hi, r.choice([0, 1, 5, 100, hi, lo, -7])))
        globs.append("(G %d %s %d () (%d))" % (cst, t, x, v))
        gsc.append((x, t))
        if cst:
            consts.append((x, "global"))
    for _ in range(r.randint(0, 2)):
        x = g.var()
        nd = r.choice([1, 1, 2])
        dims = [r.randint(2, 3) for _ in range(nd)]
        t = "long" if nd > 1 else r.choice(["int", "long", "short", "tiny"])
        size = dims[0] * (dims[1] if nd > 1 else 1)
        lo, hi = gen_core.RANGES[t]
        cst = r.random() < 0.6
        init = [str(r.randint(max(lo, -50), min(hi, 50))) for _ in range(size)]
        globs.append("(G %d %s %d (%s) (%s))" % (cst, t, x, " ".join(map(str, dims)), " ".join(init)))
        garr.append((x, t, dims, cst))
        if cst:
            carrs.append((x, dims, "global"))
    ro = set(x for x, _ in consts)
    genv = {"scalars": list(gsc), "arrays": list(garr), "ro": set(ro), "callable": [], "calls_ok": False}

    def attack_stmt(kind_pool_scalars, kind_pool_arrays):
        forms = []
        if kind_pool_scalars:
            forms += ["assign", "compound"] + ([] if avoid_incdec else ["incdec"])
        if kind_pool_arrays:
            forms += ["elem"]
            if any(len(d) == 1 for _, d, _ in kind_pool_arrays):
                forms += ["elem-compound"] + ([] if avoid_incdec else ["elem-incdec"])
        if not forms:
            return None, None
        f = r.choice(forms)
        rhs = str(r.choice([0, 1, 2, 3, 7]))
        if f in ("assign", "compound", "incdec"):
            x, where = r.choice(kind_pool_scalars)
            if f == "assign":
                return "(asg (v %d) %s)" % (x, rhs), (f, where)
            if f == "compound":
                return "(casg %s (v %d) %s)" % (r.choice(["+", "-", "*", "&", "|", "^"]), x, rhs), (f, where)
            return "(incdec %d %d (v %d))" % (r.randint(0, 1), r.randint(0, 1), x), (f, where)
        if f == "elem":
            x, dims, where = r.choice(kind_pool_arrays)
            return "(asg (idx %d %s) %s)" % (x, " ".join(str(r.randrange(d)) for d in dims), rhs), (f, where)
        x, dims, where = r.choice([a for a in kind_pool_arrays if len(a[1]) == 1])
        if f == "elem-compound":
            return "(casg %s (idx %d %d) %s)" % (r.choice(["+", "-", "*", "&", "|", "^"]), x, r.randrange(dims[0]), rhs), (f, where)
        return "(incdec %d %d (idx %d %d))" % (r.randint(0, 1), r.randint(0, 1), x, r.randrange(dims[0])), (f, where)

    do_attack = r.random() < attack_p
    where_attack = r.choice(["main", "main", "nested", "loop", "func", "func-local", "static"]) if do_attack else None
    info = {"attack": None}
    funcs = []
    fid = 1
    if where_attack in ("func", "func-local", "static") or r.random() < 0.4:
        p1 = g.var()
        fenv = {"scalars": genv["scalars"] + [(p1, "long")], "arrays": genv["arrays"], "ro": set(ro), "callable": [], "calls_ok": False}
        body = g.stmts(fenv, 1, r.randint(0, 2), False, None)
        sc_pool, ar_pool = list(consts), list(carrs)
        if where_attack in ("func-local", "static") or r.random() < 0.5:
            lx = g.var()
            sta = 1 if where_attack == "static" else 0
            body.append("(decl 1 %d %s %d %s)" % (sta, r.choice(["int", "long", "short"]), lx, r.choice(["3", "(bin + (v %d) 0)" % gsc[0][0] if gsc[0][1] in ("int", "short", "tiny") else "4"])))
            body.append("(print 1 (v %d))" % lx)
            if where_attack in ("func-local", "static"):
                sc_pool, ar_pool = [(lx, where_attack)], []
        if where_attack in ("func", "func-local", "static"):
            a, meta = attack_stmt(sc_pool, ar_pool)
            if a is None:
                where_attack = "main"
            else:
                body.append("(print 1 100)")
                body.append(a)
                body.append("(print 1 101)")
                info["attack"] = meta
        body.append("(ret (bin + (v %d) 1))" % p1)
        funcs.append("(F %d long ((%d long)) (%s))" % (fid, p1, " ".join(body)))
    env = {"scalars": list(genv["scalars"]), "arrays": list(genv["arrays"]), "ro": set(ro), "callable": [], "calls_ok": False}
    main = []
    lconst, lcarr = [], []
    for _ in range(r.randint(1, 3)):
        x = g.var()
        t = r.choice(["int", "long", "short", "tiny", "uint", "bool" if False else "int"])
        cst = r.random() < 0.6
        lo, hi = gen_core.RANGES[t]
        main.append("(decl %d 0 %s %d %d)" % (cst, t, x, max(lo, min(hi, r.choice([0, 1, 9, 120, -3, 40000])))))
        env["scalars"].append((x, t))
        if cst:
            env["ro"].add(x)
            lconst.append((x, "local"))
    if r.random() < 0.6:
        x = g.var()
        n = r.randint(2, 4)
        t = r.choice(["int", "long", "short"])
        cst = r.random() < 0.7
        main.append("(arr %d %s %d (%d) (%s))" % (cst, t, x, n, " ".join(str(r.randint(-9, 9)) for _ in range(n))))
        env["arrays"].append((x, t, [n], cst))
        if cst:
            lcarr.append((x, [n], "local"))
    main += g.stmts(env, 2, r.randint(1, 4))
    # (the call is not made inside println: println re-evaluates an argument that failed - finding C01-println-retry)
    if funcs and (where_attack not in ("func", "func-local", "static")) and r.random() < 0.7:
        cx = g.var()
        main.append("(decl 0 0 long %d (call 1 %d))" % (cx, r.randint(0, 5)))
        main.append("(print 1 (v %d))" % cx)
    if where_attack in ("main", "nested", "loop"):
        a, meta = attack_stmt(consts + lconst, carrs + lcarr)
        if a is not None:
            info["attack"] = meta
            pre = "(print 1 200)"
            if where_attack == "main":
                main += [pre, a]
            elif where_attack == "nested":
                main.append("(if 1 ((block %s (block %s))) ())" % (pre, a))
            else:
                i = g.var()
                k = r.randint(0, 2)
                main.append("(for ((decl 0 0 int %d 0)) (bin < (v %d) 3) ((casg + (v %d) 1)) ((print 1 (v %d)) (if (bin == (v %d) %d) (%s) ())))"
                            % (i, i, i, i, i, k, a))
    elif where_attack in ("func", "func-local", "static"):
        cx = g.var()
        main.append("(decl 0 0 long %d (call 1 %d))" % (cx, r.randint(0, 5)))
        main.append("(print 1 (v %d))" % cx)
    # statements after the attempt: must not run when it was made
    main.append("(print 1 300)")
    for x, _ in (consts + lconst)[:3]:
        main.append("(print 1 (v %d))" % x)
    for x, dims, _ in (carrs + lcarr)[:2]:
        main.append("(print 1 (idx %d %s))" % (x, " ".join("0" for _ in dims)))
    return "(P (%s) (%s) (%s))" % (" ".join(globs), " ".join(funcs), " ".join(main)), info


# ====================================================================================================
# Cells outside the machine: object kinds / mutation paths the Coq models do not contain (strings, floats, 2-D arrays,
# nested members, methods, reference-returning functions ...). Tested only: the property demands a refusal of the const
# version, and the control twin (qualifier removed) must run and print a changed value.
# ====================================================================================================
def _x(pre, decl, obs, att, where="main"):
    """-> function(const?) -> program text; {Q} in decl/pre is the qualifier under test"""
    def mk(const):
        q = "const " if const else ""
        p, d = pre.replace("{Q}", q), decl.replace("{Q}", q)
        if where == "global":
            return "%s%s\nvoid main() {\n  %s\n  %s\n  %s\n}\n" % (p, d, obs, att, obs)
        return "%svoid main() {\n  %s\n  %s\n  %s\n  %s\n}\n" % (p, d, obs, att, obs)
    return mk


EXTRA_CELLS = [
    ("string/assign", _x("", '{Q}string c = "abc";', "println(c);", 'c = "q";')),
    ("string/elem", _x("", '{Q}string c = "abc";', "println(c);", "c[0] = 'x';")),
    ("double/assign", _x("", "{Q}double c = 1.5;", "println(c);", "c = 2.5;")),
    ("double/compound", _x("", "{Q}double c = 1.5;", "println(c);", "c += 1.0;")),
    ("float/postinc", _x("", "{Q}float c = 1.5;", "println(c);", "c++;")),
    ("unsigned/assign", _x("", "{Q}unsigned int c = 5;", "println(c);", "c = 6;")),
    ("typedef/assign", _x("typedef int MyInt;\n", "{Q}MyInt c = 5;", "println(c);", "c = 6;")),
    ("int/shl_assign", _x("", "{Q}int c = 5;", "println(c);", "c <<= 1;")),
    ("int/mod_assign", _x("", "{Q}int c = 5;", "println(c);", "c %= 3;")),
    ("int/assign_from_postinc", _x("", "{Q}int c = 5; int x = 0;", "println(c);", "x = c++;")),
    ("array2d/elem", _x("", "{Q}int[2][2] c = [[1, 2], [3, 4]];", "println(c[0][1], c[1][0]);", "c[0][1] = 9;")),
    ("array/loop_store", _x("", "{Q}int[3] c = [1, 2, 3]; int i = 0;", "println(c[0], c[1], c[2]);", "for (i = 0; i < 3; i++) { c[i] = 0; }")),
    ("global_array/callee_store", _x("{Q}int[3] c = [1, 2, 3];\nvoid f() { c[1] = 9; }\n", "", "println(c[0], c[1], c[2]);", "f();")),
    ("global_struct/callee_store", _x("struct S { int a; int b; };\n{Q}S c = {1, 2};\nvoid f() { c.a = 9; }\n", "", "println(c.a, c.b);", "f();")),
    ("global/callee_assign", _x("{Q}int c = 5;\nvoid f() { c = 9; }\n", "", "println(c);", "f();")),
    ("global/callee_postinc", _x("{Q}int c = 5;\nvoid f() { c++; }\n", "", "println(c);", "f();")),
    ("nested_member/store", _x("struct I { int v; int w; };\nstruct O { I in; int b; };\n", "{Q}O c = {{1, 2}, 3};", "println(c.in.v, c.b);", "c.in.v = 9;")),
    ("struct_array_member/elem", _x("struct S { int[3] a; int b; };\n", "{Q}S c = {[1, 2, 3], 4};", "println(c.a[1], c.b);", "c.a[1] = 7;")),
    ("value_param_struct/member", _x("struct S { int a; int b; };\nvoid f({Q}S c) {\n  println(c.a, c.b);\n  c.a = 9;\n  println(c.a, c.b);\n}\n",
                                      "S x = {1, 2};", "", "f(x);")),
    ("array_param/elem", _x("void f({Q}int[3] c) {\n  println(c[0], c[1], c[2]);\n  c[1] = 9;\n  println(c[0], c[1], c[2]);\n}\n",
                             "int[3] x = [1, 2, 3];", "", "f(x);")),
    ("default_param/assign", _x("void f({Q}int c = 5) {\n  println(c);\n  c = 6;\n  println(c);\n}\n", "", "", "f();")),
    ("static_local/assign", _x("void f() {\n  static {Q}int c = 5;\n  println(c);\n  c = 6;\n  println(c);\n}\n", "", "", "f();")),
    ("ref_return/store", _x("{Q}int c = 5;\nint& get() { return c; }\n", "", "println(c);", "int& r = get(); r = 9;")),
    ("method_self/store", _x("struct P { int x; };\ninterface I { void inc(); };\nimpl I for P { void inc() { self.x = self.x + 1; } };\n",
                              "{Q}P c = {1};", "println(c.x);", "c.inc();")),
    ("ptc/dptr_asg", _x("", "int x = 53; {Q}int* c = &x;", "println(x);", "int** pp; pp = &c; **pp = 3;")),
    ("ptc/dptr_decl", _x("", "int x = 53; {Q}int* c = &x;", "println(x);", "int** pp = &c; **pp = 3;")),
    ("array/copy_assign", _x("", "{Q}int[3] c = [1, 2, 3]; int[3] d = [4, 5, 6];", "println(c[0], c[1], c[2]);", "c = d;")),
    ("string_array/elem", _x("", '{Q}string[2] c = ["a", "b"];', "println(c[0], c[1]);", 'c[0] = "x";')),
    ("string_array/whole", _x("", '{Q}string[2] c = ["a", "b"];', "println(c[0], c[1]);", 'c = ["x", "y"];')),
    ("struct/literal_assign", _x("struct S { int a; int b; };\n", "{Q}S c = {1, 2};", "println(c.a, c.b);", "c = {4, 5};")),
    ("member_string/store", _x("struct S { {Q}string s; int b; };\n", 'S c = {"abc", 2};', "println(c.s, c.b);", 'c.s = "q";')),
    ("member_array/elem", _x("struct S { {Q}int[3] a; int b; };\n", "S c = {[1, 2, 3], 4};", "println(c.a[1], c.b);", "c.a[1] = 7;")),
    ("member/self_store", _x("struct P { {Q}int x; int y; };\ninterface I { void inc(); };\nimpl I for P { void inc() { self.x = self.x + 1; } };\n",
                              "P c = {1, 2};", "println(c.x, c.y);", "c.inc();")),
    ("struct_string_member/store", _x("struct S { string s; int b; };\n", '{Q}S c = {"abc", 2};', "println(c.s, c.b);", 'c.s = "q";')),
    ("swap_like/two_stores", _x("", "{Q}int c = 5; int d = 7; int t = 0;", "println(c, d);", "t = c; c = d; d = t;")),
    # cells found while enumerating access paths into nested objects (harness/c09_paths.py); the fourth is a finding, the first
    # three were (repaired: C09-const-float-array, C09-const-array-copy-init)
    ("double_array/elem", _x("", "{Q}double[3] c = [1.0, 2.0, 3.0];", "println(c[0], c[1], c[2]);", "c[0] = 77.0;")),
    ("float_array/compound", _x("", "{Q}float[3] c = [1.0, 2.0, 3.0];", "println(c[0], c[1], c[2]);", "c[0] += 1.0;")),
    ("array_copy_init/elem", _x("", "int[3] s = [1, 2, 3]; {Q}int[3] c = s;", "println(c[0], c[1], c[2]);", "c[0] = 77;")),
    ("struct_copy_init/elem_literal", _x("struct N { int n; int w; };\nstruct O { N[2] items; int k; };\n", "O s = {[{1, 2}, {3, 4}], 5}; {Q}O c = s;",
                                          "println(c.items[0].n, c.items[1].n, c.k);", "c.items[1] = {8, 9};")),
    ("long_array/elem", _x("", "{Q}long[3] c = [1, 2, 3];", "println(c[0], c[1], c[2]);", "c[0] = 77;")),
    ("struct_array_member/elem_store", _x("struct N { int n; int w; };\nstruct O { N[2] items; int k; };\n", "{Q}O c = {[{1, 2}, {3, 4}], 5};",
                                           "println(c.items[0].n, c.items[1].n, c.k);", "c.items[1].n = 9;")),
    ("struct_array_member/elem_compound", _x("struct N { int n; int w; };\nstruct O { N[2] items; int k; };\n", "{Q}O c = {[{1, 2}, {3, 4}], 5};",
                                              "println(c.items[0].n, c.items[1].n, c.k);", "c.items[1].n += 5;")),
    ("struct_array_member/elem_literal", _x("struct N { int n; int w; };\nstruct O { N[2] items; int k; };\n", "{Q}O c = {[{1, 2}, {3, 4}], 5};",
                                             "println(c.items[0].n, c.items[1].n, c.k);", "c.items[1] = {8, 9};")),
    ("struct_array_member/deep_store", _x("struct I { int v; int w; };\nstruct N { I in; int n; };\nstruct O { int k; N[2] items; };\n",
                                           "{Q}O c = {5, [{{1, 2}, 3}, {{4, 6}, 7}]};", "println(c.items[0].in.v, c.items[1].in.v, c.k);", "c.items[1].in.v = 9;")),
    ("struct_array/elem_member_chain", _x("struct I { int v; int w; };\nstruct N { I in; int n; };\nvoid f({Q}N[2] c) {\n  println(c[0].in.v, c[1].in.v, c[1].n);\n  c[1].in.v = 9;\n  println(c[0].in.v, c[1].in.v, c[1].n);\n}\n",
                                           "N[2] x; x[0] = {{1, 2}, 3}; x[1] = {{4, 5}, 6};", "", "f(x);")),
    ("chain4/store", _x("struct I { int v; int w; };\nstruct N { I in; int n; };\nstruct O { N in; int k; };\nstruct Q { O in; int z; };\n",
                         "{Q}Q c = {{{{1, 2}, 3}, 4}, 5};", "println(c.in.in.in.v, c.z);", "c.in.in.in.v = 9;")),
    ("string_array_param/elem", _x("void f({Q}string[2] c) {\n  println(c[0], c[1]);\n  c[0] = \"x\";\n  println(c[0], c[1]);\n}\n", 'string[2] s = ["a", "b"];', "", "f(s);")),
    ("double_array2d/elem", _x("", "{Q}double[2][2] c = [[1.0, 2.0], [3.0, 4.0]];", "println(c[0][1], c[1][0]);", "c[0][1] = 9.0;")),
    ("struct_string_array_member/elem", _x("struct S { string[2] sa; int b; };\n", '{Q}S c = {["a", "b"], 4};', "println(c.sa[0], c.sa[1], c.b);", 'c.sa[1] = "x";')),
    ("struct_double_array_member/elem", _x("struct S { double[2] da; int b; };\n", "{Q}S c = {[1.0, 2.0], 4};", "println(c.da[0], c.da[1], c.b);", "c.da[1] = 9.0;")),
    ("member_string_array/elem", _x("struct S { {Q}string[2] sa; int b; };\n", 'S c = {["a", "b"], 4};', "println(c.sa[0], c.sa[1], c.b);", 'c.sa[1] = "x";')),
    ("struct_member/var_rhs", _x("struct S { int a; int b; };\n", "{Q}S c = {1, 2}; int u = 9;", "println(c.a, c.b);", "c.a = u;")),
    ("struct_member/expr_rhs", _x("struct S { int a; int b; };\n", "{Q}S c = {1, 2}; int u = 9;", "println(c.a, c.b);", "c.a = u * 2 + 1;")),
    ("struct_member/call_rhs", _x("struct S { int a; int b; };\nint g() { return 9; }\n", "{Q}S c = {1, 2};", "println(c.a, c.b);", "c.a = g();")),
    ("struct_member/double_store", _x("struct S { double d; int b; };\n", "{Q}S c = {1.5, 2};", "println(c.d, c.b);", "c.d = 9.5;")),
    ("struct_member/string_var_rhs", _x("struct S { string s; int b; };\n", '{Q}S c = {"a", 2}; string u = "zz";', "println(c.s, c.b);", "c.s = u;")),
    ("struct_member/ternary_rhs", _x("struct S { int a; int b; };\n", "{Q}S c = {1, 2}; int u = 9;", "println(c.a, c.b);", "c.a = u > 3 ? 7 : 8;")),
    ("member/var_rhs", _x("struct S { {Q}int a; int b; };\n", "S c = {1, 2}; int u = 9;", "println(c.a, c.b);", "c.a = u;")),
    ("member/double_store", _x("struct S { {Q}double d; int b; };\n", "S c = {1.5, 2};", "println(c.d, c.b);", "c.d = 9.5;")),
    # the store made in an expression / statement context other than a plain statement (evaluator/operators/assignment.cpp
    # evaluate_assignment, loop headers, arguments); `x = (c = 6)`, `x = c = 6`, `if ((c = 6) > 0)` crash the interpreter for every operand
    ("context/for_update_assign", _x("", "{Q}int c = 5; int i = 0;", "println(c);", "for (i = 0; i < 1; c = 7) { i++; }")),
    ("context/for_update_inc", _x("", "{Q}int c = 5; int i = 0;", "println(c);", "for (i = 0; i < 1; c++) { i++; }")),
    ("context/for_init_assign", _x("", "{Q}int c = 5; int i = 0;", "println(c);", "for (c = 0; i < 1; i++) { }")),
    ("context/while_cond_inc", _x("", "{Q}int c = 5; int i = 0;", "println(c);", "while (c++ < 0) { i++; }")),
    ("context/argument_inc", _x("int id(int a) { return a; }\n", "{Q}int c = 5;", "println(c);", "id(c++);")),
    ("context/elem_assign_in_expr", _x("", "{Q}int[3] c = [1, 2, 3]; int x = 0;", "println(c[0], c[1], c[2]);", "x = (c[1] = 9);")),
    ("context/elem_inc_in_expr", _x("", "{Q}int[3] c = [1, 2, 3]; int x = 0;", "println(c[0], c[1], c[2]);", "x = c[1]++ + 1;")),
    ("context/member_inc_in_expr", _x("struct S { int a; int b; };\n", "{Q}S c = {1, 2}; int x = 0;", "println(c.a, c.b);", "x = c.a++ + 1;")),
    ("context/struct_from_call", _x("struct S { int a; int b; };\nS mk() { S r = {8, 9}; return r; }\n", "{Q}S c = {1, 2};", "println(c.a, c.b);", "c = mk();")),
    ("struct_member/whole_assign", _x("struct N { int n; int w; };\nstruct O { N in; int k; };\n", "{Q}O c = {{1, 2}, 3}; N t = {8, 9};",
                                       "println(c.in.n, c.in.w, c.k);", "c.in = t;")),
]


def extra_cells():
    return [(name, mk(True), mk(False)) for name, mk in EXTRA_CELLS]
