#!/usr/bin/env python3
"""mk_seed_prompt.py Cnn k : create a scratch git worktree of /repo's HEAD at /var/tmp/seed/Cnn-k and print the
prompt for an independent seeding agent (harness/seed_prompt.txt with the property's text filled in). The agent is
given nothing from /verif. After it finishes: harness/eval_seed.py /var/tmp/seed/Cnn-k Cnn-k."""
import json, os, subprocess, sys
V = os.path.dirname(os.path.dirname(os.path.abspath(__file__)))
SPECIFIC = {
    "default": "a particular multi-step sequence of operations, an unusual input or boundary value, a specific combination of two language features, or two cooperating code sites that each look fine alone",
    "C14": "a particular interleaving of tasks, a particular placement of yield/await inside nested statements, or a multi-step sequence",
    "C15": "a particular interleaving or timing of tasks (three or more tasks, nested awaits, a sleep overlapping other work)",
    "C10": "an unusual (malformed, truncated, deeply nested or very long) input file, not ordinary programs",
    "C19": "a particular multi-step sequence of container operations (a specific rotation case, removal of a node with two children, popping the last element and pushing again, two containers of different element types interleaved)",
    "C18": "a particular import graph (diamond, repeated import, nested directories, a specific order) or a specific kind of exported item",
}
pid, k = sys.argv[1], sys.argv[2]
avoid = sys.argv[3] if len(sys.argv) > 3 else ""
prop = [json.loads(l) for l in open(os.path.join(V, "properties.jsonl")) if json.loads(l)["id"] == pid][0]
wt = "/var/tmp/seed/%s-%s" % (pid, k)
os.makedirs("/var/tmp/seed", exist_ok=True)
if not os.path.exists(wt):
    subprocess.run(["git", "-C", "/repo", "worktree", "add", "--detach", wt, "HEAD"], check=True, capture_output=True)
t = open(os.path.join(V, "harness", "seed_prompt.txt")).read()
t = (t.replace("__WT__", wt).replace("__ID__", pid).replace("__TITLE__", prop["title"])
      .replace("__STATEMENT__", prop["statement"]).replace("__SPECIFIC__", SPECIFIC.get(pid, SPECIFIC["default"])))
if avoid:
    t += "\n\nAn earlier change for this property already did the following; pick a DIFFERENT mechanism and code site: " + avoid + "\n"
print(t)
