"""C09 - the access-path part of the check: model (coq/C09/Paths.v, PathModel.v, extracted into bin/c09_model) against
the implementation on
  * one witness per check site of the path machine (which tests does THIS binary make?),
  * the whole universe of PathModel.v (8 object graphs x const on nothing / the variable / one member x every scalar cell
    x =, op=, ++ and every inner node x variable / literal source), each case rendered with a way of creating the variable,
    a scalar type, a right-hand-side form ... drawn from the seed; the const-variable cases additionally in EVERY way,
  * random scripts (several variables of random declarable shapes, several stores, full transcript).
Called from harness/props/c09.py."""
import collections
import json
import os

import common
import gen_c09_paths as G
from common import rng_for

PROP = "C09"
CORPUS = os.path.join(common.VERIF, "corpus", "c09_paths.json")


def model(args, lines=None):
    common.ensure_model(PROP)
    data = ("\n".join(lines) + "\n").encode() if lines is not None else None
    rc, o, e = common.sh([common.model_bin(PROP)] + args, input=data, timeout=900)
    if rc != 0:
        raise RuntimeError("c09_model %s failed rc=%d: %s" % (args, rc, e[-800:]))
    return o


OBS = {"arg": None}


def prun(scripts):
    res = G.parse_prun_output(model(["prun"] + ([OBS["arg"]] if OBS["arg"] else []), scripts))
    if len(res) != len(scripts):
        raise RuntimeError("c09_model prun returned %d results for %d scripts" % (len(res), len(scripts)))
    return res


def site_of(r):
    """the check site at which spec refuses (and mech, lacking every applicable test, goes on)"""
    return r["spec"][0].split(":")[-1] if r["spec"][0].startswith("rej") else "?"


def judge_case(r, plan, out, line):
    """-> (class, detail): ok | hole:<site> | fixed:<site> | unsupported:<what> | changed | mismatch | skip"""
    if "error" in r or plan is None:
        return "skip", "ill-formed script"
    rc, o, e = out
    if r["spec"][0].startswith("stuck") or r["free"][0].startswith("stuck"):
        return "skip", "the model is stuck"
    if rc not in (0, 1):
        return "mismatch", "implementation ended with status %d" % rc
    init = G.init_tokens(line, plan) if plan["exact"] else None
    if not all(r["exec"]):
        # outside what the implementation can execute (on non-const objects): nothing protected may change
        if G.protected_changed(plan, o):
            return "changed", "a store outside the executable envelope changed a protected cell"
        if rc == 1:
            return "unsupported:" + ("refused-const" if "const" in e.lower() else "other-error"), ""
        a_free, _ = G.judge(plan, r["free"], rc, o, e, init)
        ls = o.split("\n")
        moved = len(ls) >= 3 and ls[0] != ls[1]
        return ("unsupported:now-executes" if a_free and moved and not r["spec"][0].startswith("rej") else "unsupported:no-effect"), ""
    a_spec, d_spec = G.judge(plan, r["spec"], rc, o, e, init)
    a_mech, d_mech = G.judge(plan, r["mech"], rc, o, e, init)
    same = r["spec"] == r["mech"]
    if same:
        return ("ok", "") if a_spec else ("mismatch", "spec and mech agree, main differs: " + d_spec)
    if a_mech:
        return "hole:" + site_of(r), ""
    if a_spec:
        return "fixed:" + site_of(r), ""
    if "obs" in r and G.judge(plan, r["obs"], rc, o, e, init)[0]:
        return "fixed:" + site_of(r), ""
    return "mismatch", "main equals neither mech (%s) nor spec (%s)" % (d_mech, d_spec)


def adjust(line, opts, r):
    """History the machine does not have (both are part of finding C09-const-member-in-element):
    * a store through a missing test sets `is_assigned` on what it wrote - a second store there is then refused; the
      script ends with the first operation on which the property and the model of the code part;
    * the const of a member of a struct-array-VARIABLE element (x[i].n) is tested once a member of that element has been
      read: scripts that reach that site are rendered without an observation before the stores."""
    if "error" in r or r["spec"] == r["mech"] or not r["spec"][0].startswith("rej"):
        return line, opts, False
    k = int(r["spec"][0].split(":")[1])
    vars_, ops = G.parse_pscript(line)
    site = site_of(r)
    changed = False
    if len(ops) > k + 1:
        line, changed = G.pscript_text(vars_, ops[:k + 1]), True
    if site.startswith("Last.RootIdx") and opts.get("obs_before", True):
        # (only possible when nothing before the store reads the element: the store must be the first operation)
        opts, changed = dict(opts, obs_before=False), True
        if k > 0:
            line = G.pscript_text(vars_, ops[k:k + 1])
    return line, opts, changed


def materialise_source(line, opts):
    """`x[i] = x[j];` on a struct-array VARIABLE reaches the struct-store executor only when the source element x[j] has been
    read or written before (element variables are materialised lazily; from a never-touched element the store is lost, also
    on non-const arrays - not a const matter): such cases are rendered with the observation before the stores."""
    if opts.get("subsrc") == "elem" and not opts.get("obs_before", True) and is_sub(line) and struct_array_root(line):
        return dict(opts, obs_before=True)
    return opts


def run_cases(impl, cases):
    """cases: list of (pscript, opts) -> rows (pscript, opts, program, model result, (rc,out,err), class, detail, plan)"""
    cases = [(line, materialise_source(line, opts)) for line, opts in cases]
    res = prun([c[0] for c in cases])
    redo = []
    for k, ((line, opts), r) in enumerate(zip(cases, res)):
        l2, o2, ch = adjust(line, opts, r)
        if ch:
            cases[k] = (l2, o2)
            redo.append(k)
    if redo:
        for k, r in zip(redo, prun([cases[k][0] for k in redo])):
            res[k] = r
    progs, plans = [], []
    for (line, opts), r in zip(cases, res):
        p, pl = None, None
        if "error" not in r:
            try:
                p, pl = G.render_pscript(line, opts)
            except G.PRenderError:
                p, pl = None, None
        progs.append(p)
        plans.append(pl)
    outs = common.pmap(lambda p: common.run_cb(impl, p) if p else (0, "", ""), progs)
    rows = []
    for (line, opts), p, r, o, pl in zip(cases, progs, res, outs, plans):
        c, d = judge_case(r, pl, o, line) if p else ("skip", "not renderable this way")
        rows.append((line, opts, p, r, o, c, d, pl))
    return rows


def shrink(impl, line, opts, want):
    vars_, ops = G.parse_pscript(line)
    budget = 30
    changed = True
    while changed and budget > 0 and len(ops) > 1:
        changed = False
        for k in range(len(ops) - 1, -1, -1):
            cand = ops[:k] + ops[k + 1:]
            budget -= 1
            try:
                row = run_cases(impl, [(G.pscript_text(vars_, cand), opts)])[0]
            except Exception:
                continue
            if row[5].split(":")[0] == want:
                ops = cand
                changed = True
                break
            if budget <= 0:
                break
    return G.pscript_text(vars_, ops)


def report(rep, impl, row, origin, fmap, stats, strict=False, do_shrink=True):
    line, opts, p, r, o, c, d, pl = row
    stats[c if (c.startswith("hole") or c.startswith("unsupported")) else c.split(":")[0]] += 1
    if c in ("ok", "skip") or c.startswith("unsupported"):
        return
    if c.startswith("hole:") and not strict:
        f = fmap.get(c[5:])
        if f:
            rep.known(f["id"], f["what_fails"])
            return
        d = "implementation follows mech through path check site %s for which no finding is recorded" % c[5:]
    elif c.startswith("hole:"):
        d = "a script on which the model of the code and the property agree reached the missing test %s" % c[5:]
    elif c.startswith("fixed:"):
        # Whether the implementation refuses through a test the model lists as missing depends on history the machine
        # does not have (is_assigned / materialisation by reads): only the site's own WITNESS decides "repaired?"
        if origin.startswith("witness of"):
            msg = "path check site %s: main now refuses its witness (finding repaired? update pmech in coq/C09/Paths.v): %s" % (c[6:], line)
            if not any(n.startswith("path check site %s:" % c[6:]) for n in rep.notes):
                rep.notes.append(msg)
        return
    small = line
    if do_shrink:
        try:
            small = shrink(impl, line, opts, c.split(":")[0])
        except Exception:
            pass
    row2 = run_cases(impl, [(small, opts)])[0]
    l2, _, p2, r2, o2, c2, d2, pl2 = row2
    init = G.init_tokens(l2, pl2) if pl2 and pl2["exact"] else None
    agrees_spec = bool(pl2) and all(r2.get("exec", [False])) and G.judge(pl2, r2["spec"], o2[0], o2[1], o2[2], init)[0]
    if c2 == "changed" or (pl2 and G.protected_changed(pl2, o2[1])):
        agrees_spec = False
    elif pl2 and not all(r2.get("exec", [False])):
        agrees_spec = True
    rep.violation("path", {"pscript": small, "opts": opts, "program": p2, "origin": origin, "why": d or d2,
                           "spec": r2.get("spec", ("?",))[0], "mech": r2.get("mech", ("?",))[0],
                           "impl_rc": o2[0], "impl_stdout": o2[1], "impl_stderr": o2[2][-500:]},
                  "main disagrees with the access-path machine (%s; %s)" % (origin, d or d2), no_failing_input=agrees_spec)


# ---------------------------------------------------------------------------------------------------- rendering choices
def arith(line):
    _, ops = G.parse_pscript(line)
    return any(o["k"] == "S" and o["f"] != "s" for o in ops)


def has_member_flags(line):
    vars_, _ = G.parse_pscript(line)
    return any(G.has_const(v["tree"]) for v in vars_)


def struct_array_root(line):
    vars_, _ = G.parse_pscript(line)
    return any(v["tree"][0] == "A" and v["tree"][1][0][1][0] != "L" for v in vars_)


def is_sub(line):
    _, ops = G.parse_pscript(line)
    return any(o["k"] == "B" for o in ops)


def ways_for(line, placement):
    """the ways in which the variable of a universe case can be created so that the model's verdict is the one the
    language demands: with const MEMBERS only the ways that initialise every member (a first store to a const member of
    an uninitialised object is its initialisation); struct arrays only as locals / parameters; a by-value parameter is
    compared on const variables only (stores to nested members of a non-const by-value struct parameter are lost by the
    implementation - not a const matter).  Whole-sub-object stores: not on a const declared without initialiser (its
    first whole assignment initialises it), and not on copy-initialised / parameter consts (finding
    C09-copy-init-const-element-literal: the copy leaves the elements of struct-array members unassigned)."""
    if scalar_array_root(line):
        # a const array declared without initialiser is initialised by its first element stores
        return ["lit", "copy", "param", "global", "gcallee", "static"] if placement == "root" else ["lit", "copy", "noinit", "global", "gcallee", "static"]
    if struct_array_root(line):
        if is_sub(line):
            return ["lit", "param"] if placement == "root" else ["lit"]
        return ["lit", "noinit", "param"] if placement == "root" else ["lit"]
    if placement == "root":
        return ["lit", "global", "gcallee", "static"] if is_sub(line) else list(G.WAYS)
    if placement == "none":
        return ["lit", "global", "gcallee", "static"] if is_sub(line) else ["lit", "copy", "noinit", "global", "gcallee", "static"]
    return ["lit", "global", "gcallee", "static"]


def scalar_array_root(line):
    vars_, _ = G.parse_pscript(line)
    return any(v["tree"][0] == "A" and v["tree"][1][0][1][0] == "L" for v in vars_)


def draw_opts(rng, line, placement):
    w = rng.choice(ways_for(line, placement))
    if arith(line):
        lt = rng.choice(["int", "int", "long", "short"])
    else:
        lt = rng.choice(["int", "int", "int", "long", "short", "string", "double", "bool", "char", "unsigned int", "float"])
    # (a string VARIABLE as the right-hand side of a nested member store loses its value - not a const matter)
    # (a string / float VARIABLE as the right-hand side of a nested member store loses its value - not a const matter)
    rhs = rng.choice(["lit", "lit", "var", "expr", "call"]) if lt in G.ARITH_TYPES else "lit"
    if w in ("copy", "noinit", "param") and lt not in G.ARITH_TYPES:
        lt = "int"           # (copies of structs with cells of other types are incomplete in ways that swallow later stores)
        rhs = rng.choice(["lit", "var", "expr", "call"])
    return {"ways": w, "lt": lt, "rhs": rhs, "inc": rng.choice(["post", "pre"]), "obs_before": rng.random() < 0.85,
            "subsrc": rng.choice(["var", "var", "elem", "call"])}


# ---------------------------------------------------------------------------------------------------- random scripts
def _rand_leafstruct(rng, vals, flags):
    n = rng.randint(1, 3)
    return ("R", [(flags and rng.random() < 0.15, ("L", next(vals))) for _ in range(n)])


def _rand_mid(rng, vals, flags):
    kids = []
    for _ in range(rng.randint(1, 3)):
        if rng.random() < 0.4:
            kids.append((flags and rng.random() < 0.15, _rand_leafstruct(rng, vals, flags)))
        else:
            kids.append((flags and rng.random() < 0.15, ("L", next(vals))))
    return ("R", kids)


def _reval(t, vals):
    """same shape and flags, fresh values"""
    if t[0] == "L":
        return ("L", next(vals))
    return (t[0], [(c, _reval(k, vals)) for c, k in t[1]])


def rand_tree(rng, vals, flags=True):
    """a random DECLARABLE object: a struct whose members are scalars, arrays of scalars, structs (nested up to 3 deep,
    without arrays below the first level) and arrays of structs (first level only, elements without arrays); or an array
    of such element structs; or a small chain of structs"""
    c = rng.random()
    if c < 0.2:
        el = _rand_mid(rng, vals, flags)
        return ("A", [(False, _reval(el, vals)) for _ in range(rng.randint(2, 3))])
    if c < 0.3:
        t = _rand_leafstruct(rng, vals, flags)
        for _ in range(rng.randint(1, 3)):
            t = ("R", [(flags and rng.random() < 0.15, t), (flags and rng.random() < 0.1, ("L", next(vals)))])
        return t
    kids = []
    for _ in range(rng.randint(2, 4)):
        k = rng.random()
        fl = flags and rng.random() < 0.15
        if k < 0.3:
            kids.append((fl, ("L", next(vals))))
        elif k < 0.45:
            kids.append((fl, ("A", [(False, ("L", next(vals))) for _ in range(rng.randint(2, 3))])))
        elif k < 0.75:
            kids.append((fl, _rand_mid(rng, vals, flags)))
        else:
            el = _rand_mid(rng, vals, flags)
            kids.append((fl, ("A", [(False, _reval(el, vals)) for _ in range(2)])))
    return ("R", kids)


def exec_set_py(st, f):
    """mirror of Paths.exec_set (only used to aim the generator; the model's own flag decides)"""
    if st in ([True], [False]):
        return True
    if st == [False, True]:
        return f == "s"
    if len(st) >= 2 and not any(st[2:]) and st[:2] in ([False, False], [True, False]):
        return f in "so"
    if len(st) >= 3 and st[:3] == [False, True, False] and not any(st[3:]):
        return f in "so"
    return False


def random_pscript(rng, attack=0.4):
    def counter():
        k = 0
        while True:
            k += 1
            yield k
    vals = counter()
    nv = rng.choice([1, 1, 2, 2, 3])
    vars_ = []
    for _ in range(nv):
        flags = rng.random() < 0.45
        vars_.append({"const": rng.random() < 0.4, "tree": rand_tree(rng, vals, flags)})
    ways = []
    for v in vars_:
        sa = v["tree"][0] == "A"
        if sa:
            ways.append("lit")
        elif G.has_const(v["tree"]):
            ways.append(rng.choice(["lit", "lit", "global", "static"]))
        else:
            ways.append(rng.choice(["lit", "lit", "copy", "noinit", "global", "static"]))
    ops = []
    nops = rng.randint(2, 6)
    tries = 0
    while len(ops) < nops and tries < 200:
        tries += 1
        x = rng.randrange(nv)
        v = vars_[x]
        t = v["tree"]
        atk = rng.random() < attack
        if rng.random() < 0.78:
            cands = [(p, f) for p in G.leaf_paths(t) for f in "soi" if exec_set_py(G.steps(t, p), f)]
            cands = [(p, f) for p, f in cands if (v["const"] or any(G.edges(t, p))) == atk]
            if not cands:
                continue
            p, f = rng.choice(cands)
            u = rng.choice([1, -1]) if f == "i" else (rng.randint(2, 9) * rng.choice([1, -1]) if f == "o" else 100 + next(vals))
            ops.append({"k": "S", "x": x, "p": p, "f": f, "u": u})
        else:
            cands = []
            for p in G.node_paths(t):
                st = G.steps(t, p)
                sub = G.get(t, p)
                for lit in (False, True):
                    ok = (st == [] or (st == [False] and not lit and sub[0] == "R") or st in ([False, True], [True])) and \
                         not (sub[0] == "A")
                    if st == [] and sub[0] == "A":
                        ok = False
                    if ok and ((v["const"] or any(G.edges(t, p)) or G.has_const(sub)) == atk):
                        cands.append((p, lit))
            if not cands:
                continue
            p, lit = rng.choice(cands)
            src = _reval(G.get(t, p), vals)
            ops.append({"k": "B", "x": x, "p": p, "lit": lit, "src": src})
    for o in ops:
        # whole-sub-object stores only on variables initialised cell by cell (see ways_for)
        if o["k"] == "B" and ways[o["x"]] in ("copy", "noinit"):
            ways[o["x"]] = "lit"
    if all(w == "global" for w in ways) and rng.random() < 0.5:
        ways = ["gcallee"] * nv
    return G.pscript_text(vars_, ops), {"ways": ways, "lt": "int", "rhs": rng.choice(G.RHS_KINDS),
                                        "inc": rng.choice(["post", "pre"]), "obs_before": rng.random() < 0.9,
                                        "subsrc": rng.choice(["var", "var", "elem", "call"])}


# ---------------------------------------------------------------------------------------------------- the check
def run(rep, impl, seed, tier, findings):
    """-> dict for rep.coverage["paths"], number of evaluations, set of non-trivial programs, samples"""
    fmap = {}
    for f in findings:
        for s in f["signature"].get("psites", []):
            fmap[s] = f
    evaluations = 0
    nontrivial = set()
    samples = []
    errs = collections.Counter()

    def note_err(o):
        if o[0] != 0:
            ls = [l for l in o[2].split("\n") if l.strip()]
            if ls:
                import re
                errs[re.sub(r"x\d+(\.m\d+|\[\d+\])*", "_", ls[-1].strip())[:100]] += 1

    # ------------------------------------------------------------ check sites
    sites = []
    for l in model(["psites"]).split("\n"):
        w = l.split("\t")
        if w[0] == "PSITE":
            sites.append({"name": w[1], "chk": w[2] == "chk=1", "exec": w[3] == "exec=1", "script": w[4],
                          "spec": w[5][5:], "mech": w[6][5:], "twin": w[7]})
    missing = [s["name"] for s in sites if not s["chk"]]
    for h in missing:
        if h not in fmap:
            rep.violation("path-site", {"site": h}, "the model's policy lacks path test %s but no finding records it" % h, True)
    OBS["arg"] = None
    opts0 = {"ways": "lit", "lt": "int", "rhs": "lit", "inc": "post", "obs_before": True}
    rows = run_cases(impl, [(s["script"], opts0) for s in sites] + [(s["twin"], opts0) for s in sites])
    evaluations += len(rows)
    sstat, tstat = collections.Counter(), collections.Counter()
    obs_chk = []
    for k, st in enumerate(sites):
        row, trow = rows[k], rows[len(sites) + k]
        note_err(row[4])
        nontrivial.add(row[2])
        report(rep, impl, row, "witness of path check site " + st["name"], fmap, sstat, strict=False, do_shrink=False)
        if st["exec"]:
            # the control twin: no const anywhere, the store must run and land on its cell
            report(rep, impl, trow, "control twin of path check site " + st["name"], fmap, tstat, strict=True, do_shrink=False)
            refused = row[4][0] == 1 and "const" in row[4][2].lower() and not G.protected_changed(row[7], row[4][1])
            if refused if row[5] != "mismatch" else st["chk"]:
                obs_chk.append(st["name"])
        elif st["chk"]:
            obs_chk.append(st["name"])
            if trow[5] == "unsupported:now-executes":
                rep.notes.append("path shape of site %s (outside the executable envelope in coq/C09/Paths.v exec_set / exec_sub) now executes" % st["name"])
    if sorted(obs_chk) != sorted(s["name"] for s in sites if s["chk"]):
        OBS["arg"] = ",".join(obs_chk)
        rep.notes.append("path tests observed on this binary differ from coq/C09/Paths.v pmech: additionally present %s, absent %s"
                         % (sorted(set(obs_chk) - set(s["name"] for s in sites if s["chk"])),
                            sorted(set(s["name"] for s in sites if s["chk"]) - set(obs_chk))))
    samples.append({"path_site": sites[15]["name"], "pscript": sites[15]["script"], "program": rows[15][2], "judgement": rows[15][5]})

    # ------------------------------------------------------------ the universe
    ucases = []
    for l in model(["puniverse"]).split("\n"):
        w = l.split("\t")
        if w[0] == "PCASE":
            ucases.append({"graph": w[1], "placement": w[2], "kind": w[3], "exec": w[4] == "exec=1", "script": w[5],
                           "spec": w[6][5:], "mech": w[7][5:]})
    jobs = []          # (case, opts, origin)
    for k, c in enumerate(ucases):
        rng = rng_for(seed, "c09-puniverse", k)
        if not c["exec"] and tier == "quick" and rng.random() > 0.3:
            continue
        o = draw_opts(rng, c["script"], c["placement"])
        jobs.append((c, o))
        if c["placement"] == "root" and c["exec"]:
            # const variable: every way of making it const ...
            for w in ways_for(c["script"], "root"):
                if w != o["ways"]:
                    jobs.append((c, dict(o, ways=w, lt="int" if arith(c["script"]) or w != "lit" else o["lt"])))
            if c["kind"] == "set":
                _, cops = G.parse_pscript(c["script"])
                if cops[0]["f"] == "s":
                    # ... every scalar type of the target cell (the executors differ by the type of the value) ...
                    for lt in G.LEAF_TYPES:
                        if lt != o["lt"]:
                            jobs.append((c, dict(o, ways="lit", lt=lt, rhs="lit")))
                    # ... every form of the right-hand side
                    for rh in G.RHS_KINDS:
                        jobs.append((c, dict(o, ways="lit", lt="int", rhs=rh, obs_before=(rh != "call"))))
                elif cops[0]["f"] == "i":
                    jobs.append((c, dict(o, inc="pre" if o["inc"] == "post" else "post")))
            else:
                _, cops = G.parse_pscript(c["script"])
                if not cops[0]["lit"]:
                    # ... every kind of non-literal source
                    for ss in ("var", "elem", "call"):
                        if ss != o.get("subsrc"):
                            jobs.append((c, dict(o, ways="lit", lt="int", subsrc=ss)))
        elif c["placement"] == "root" and not c["exec"] and rng.random() < 0.5:
            jobs.append((c, dict(o, ways=rng.choice(ways_for(c["script"], "root")))))
    if os.path.exists(CORPUS):
        for it in json.load(open(CORPUS)):
            jobs.insert(0, ({"graph": "corpus", "placement": it.get("placement", "root"), "kind": "corpus", "exec": True,
                             "script": it["pscript"]}, it["opts"]))
    ustat = collections.Counter()
    by_shape = collections.Counter()
    nviol = 0
    CH = 1500
    first_sample = True
    for i in range(0, len(jobs), CH):
        part = jobs[i:i + CH]
        rows = run_cases(impl, [(c["script"], o) for c, o in part])
        evaluations += len(rows)
        for (c, o), row in zip(part, rows):
            note_err(row[4])
            if row[3].get("spec", ("",))[0].startswith("rej"):
                nontrivial.add(row[2])
            key = "%s/%s/%s" % (c["graph"], c["placement"], "exec" if c["exec"] else "outside")
            by_shape[key + ":" + (row[5] if not row[5].startswith("unsupported") else "unsupported")] += 1
            before = len(rep.violations)
            if nviol < 6 or row[5] in ("ok", "skip") or row[5].startswith("hole") or row[5].startswith("unsupported") or row[5].startswith("fixed"):
                report(rep, impl, row, "path universe %s, const on %s, rendered %s" % (c["graph"], c["placement"], json.dumps(o, sort_keys=True)),
                       fmap, ustat, strict=False, do_shrink=False)
            else:
                ustat[row[5].split(":")[0]] += 1
            nviol += len(rep.violations) - before
            if first_sample and c["graph"] == "O" and c["placement"] == "root" and "3.1.1" in c["script"]:
                first_sample = False
                samples.append({"path_universe_case": c["script"], "opts": o, "program": row[2], "spec": row[3]["spec"][0],
                                "mech": row[3]["mech"][0], "judgement": row[5]})

    # ------------------------------------------------------------ random scripts
    n = 700 if tier == "quick" else 12000
    scripts = [random_pscript(rng_for(seed, "c09-pscript", k)) for k in range(n)]
    rstat_strict, rstat_free = collections.Counter(), collections.Counter()
    rsites = collections.Counter()
    nviol = 0
    for i in range(0, len(scripts), 3000):
        part = scripts[i:i + 3000]
        rows = run_cases(impl, part)
        evaluations += len(rows)
        for row in rows:
            note_err(row[4])
            r = row[3]
            if "error" in r:
                rstat_strict["skip"] += 1
                continue
            strict = r["spec"] == r["mech"]
            if r["spec"][0].startswith("rej"):
                nontrivial.add(row[2])
                rsites[site_of(r)] += 1
            st = rstat_strict if strict else rstat_free
            before = len(rep.violations)
            if nviol < 4 or row[5] in ("ok", "skip") or row[5].startswith("hole") or row[5].startswith("unsupported") or row[5].startswith("fixed"):
                report(rep, impl, row, "random path script (%s)" % ("model of the code and property agree" if strict else "through a missing test"),
                       fmap, st, strict=strict)
            else:
                st[row[5].split(":")[0]] += 1
            nviol += len(rep.violations) - before
        if i == 0 and rows:
            j = next((j for j, row in enumerate(rows) if row[5] == "ok" and row[3]["spec"][0].startswith("rej")), 0)
            samples.append({"random_path_script": rows[j][0], "opts": rows[j][1], "program": rows[j][2], "spec": rows[j][3].get("spec", ("?",))[0],
                            "judgement": rows[j][5]})
    cov = {
        "check_sites": {"total": len(sites), "missing_in_implementation": missing, "witness_runs": dict(sstat), "twin_runs": dict(tstat)},
        "universe": {"cases_in_model": len(ucases), "programs": len(jobs), "judgements": dict(ustat), "by_graph_placement": dict(by_shape)},
        "random_scripts": {"programs": len(scripts), "agreeing_policies": dict(rstat_strict), "through_missing_tests": dict(rstat_free),
                           "spec_rejecting_sites": dict(rsites)},
        "implementation_error_messages": dict(errs.most_common(40)),
    }
    return cov, evaluations, nontrivial, samples, {"path_site_witnesses": 2 * len(sites), "path_universe": len(jobs), "path_scripts": len(scripts)}


def replay(case, impl):
    row = run_cases(impl, [(case["pscript"], case["opts"])])[0]
    line, opts, p, r, o, c, d, pl = row
    print(p)
    print("spec:", r.get("spec", ("?",))[0], "| mech:", r.get("mech", ("?",))[0])
    print("main:", o[0], repr(o[1]), o[2][-300:])
    print("judgement:", c, d)
    return 0 if c in ("ok", "skip") or c.startswith("hole") or c.startswith("unsupported") else 1
