"""Tie between /repo's int64 helpers (helpers.cpp) and the theorems of coq/C01/Properties_C01_helpers.v (work package X1).

On every run of ./check C01:
  regenerate(rep)        translators/cxx_pure.py re-translates clang's AST of the helpers' current C++ text into
                         coq/C01/Gen_Helpers.v (written only when it changed; clang's AST is cached per source hash);
  (coq_check_props re-checks the theorems about the generated terms)
  after_check(rep, ...)  nothing to do while the translator succeeded and every obligation checks.  Otherwise: SEARCH for a
                         concrete failing input - evaluate the generated functions inside Coq (vm_compute, coq/Cxx/Cxx.v
                         semantics) on a grid of boundary operands x operators, compare with the reference arithmetic
                         (exact 64-bit, Lang.Sem.arith) and with the closed form the theorems state (eval_i64), turn the
                         first disagreement / first undefined behaviour into a Cb program that reaches the int64 evaluation
                         path of the interpreter (a bare non-comparison condition: `if ((a op b) ^ r)`), run it on the real
                         binary (and on the ASan+UBSan build when the model reports undefined behaviour), and report the
                         violation with that program as replay; `no_failing_input` only if none is found.
"""
import hashlib
import json
import os
import re
import sys
import time

import common

sys.path.insert(0, os.path.join(common.VERIF, "translators"))
import cxx_pure  # noqa: E402

PROP = "C01"
GEN = os.path.join(common.COQ, PROP, "Gen_Helpers.v")
CHAIN_GEN = os.path.join(common.COQ, PROP, "Gen_TypedChain.v")
HELPER_THEOREMS_FILE = "C01/Properties_C01_helpers.v"
CHAIN_THEOREMS_FILE = "C01/Properties_C01_typedchain.v"
HELPER_FILES = ("C01/Gen_Helpers.v", "C01/HelpersGen.v", "C01/Properties_C01_helpers.v", "Cxx/Cxx.v", "Cxx/CxxLemmas.v", "C01/ArithPaths.v")
CHAIN_FILES = ("C01/Gen_TypedChain.v", "C01/TypedChainGen.v", "C01/Properties_C01_typedchain.v")

I64_MIN, I64_MAX = -2**63, 2**63 - 1
ARITH = ["+", "-", "*", "/", "%"]
BITWISE = ["&", "|", "^", "<<", ">>"]
COMPARE = ["==", "!=", "<", ">", "<=", ">="]
LOGICAL = ["&&", "||"]
UNARY = ["+", "-", "!", "~"]
FN_OF = {}
for _o in ARITH:
    FN_OF[_o] = "fn_evaluate_arithmetic_binary"
for _o in BITWISE:
    FN_OF[_o] = "fn_evaluate_bitwise_binary"
for _o in COMPARE:
    FN_OF[_o] = "fn_evaluate_comparison_binary"
for _o in LOGICAL:
    FN_OF[_o] = "fn_evaluate_logical_binary"
# functions no code path of the interpreter calls (dispatcher.cpp sends comparisons and unary operators to the typed evaluator)
UNREACHABLE = {"fn_evaluate_comparison_binary": "evaluate_comparison_binary is not called anywhere in the interpreter (dispatcher.cpp evaluates "
                                                "comparisons in the typed evaluator): no program reaches it",
               "fn_evaluate_simple_unary": "evaluate_simple_unary is not called anywhere in the interpreter: no program reaches it"}

GRID = sorted(set([I64_MIN, I64_MIN + 1, -2**32, -2**31, -65, -64, -63, -8, -7, -2, -1, 0, 1, 2, 3, 7, 62, 63, 64, 65,
                   2**31, 2**32, 2**62, I64_MAX - 1, I64_MAX]))


def wrap64(z):
    return (z + 2**63) % 2**64 - 2**63


def in64(z):
    return I64_MIN <= z <= I64_MAX


def tquot(a, b):
    q = abs(a) // abs(b)
    return q if (a >= 0) == (b >= 0) else -q


def reference(op, a, b):
    """Lang.Sem.arith (+ the value of && / || once both operands are evaluated): ('val', r) | ('div0',) | ('undef',)."""
    def chk(z):
        return ("val", z) if in64(z) else ("undef",)
    if op == "+":
        return chk(a + b)
    if op == "-":
        return chk(a - b)
    if op == "*":
        return chk(a * b)
    if op == "/":
        return ("div0",) if b == 0 else chk(tquot(a, b))
    if op == "%":
        if b == 0:
            return ("div0",)
        if a == I64_MIN and b == -1:
            return ("undef",)
        return ("val", a - b * tquot(a, b))
    if op == "&":
        return ("val", a & b)
    if op == "|":
        return ("val", a | b)
    if op == "^":
        return ("val", a ^ b)
    if op == "<<":
        return chk(a * 2**b) if 0 <= b < 64 else ("undef",)
    if op == ">>":
        return ("val", a >> b) if 0 <= b < 64 else ("undef",)
    if op in COMPARE:
        return ("val", int({"==": a == b, "!=": a != b, "<": a < b, ">": a > b, "<=": a <= b, ">=": a >= b}[op]))
    if op == "&&":
        return ("val", int(a != 0 and b != 0))
    if op == "||":
        return ("val", int(a != 0 or b != 0))
    raise KeyError(op)


def closed_form(op, a, b):
    """ArithPaths.eval_i64 (what the unchanged helpers compute on ALL int64 operands): ('val', r) | ('throw', message)."""
    if op == "+":
        return ("val", wrap64(a + b))
    if op == "-":
        return ("val", wrap64(a - b))
    if op == "*":
        return ("val", wrap64(a * b))
    if op == "/":
        if b == 0:
            return ("throw", "Division by zero")
        if a == I64_MIN and b == -1:
            return ("throw", "Arithmetic overflow in division")
        return ("val", tquot(a, b))
    if op == "%":
        if b == 0:
            return ("throw", "Modulo by zero")
        if b == -1:
            return ("val", 0)
        return ("val", a - b * tquot(a, b))
    if op == "<<":
        return ("val", wrap64(a * 2**(b % 64)))
    if op == ">>":
        return ("val", a >> (b % 64))
    r = reference(op, a, b)
    return r


def ld_round(z):
    """An integer rounded to a 64-bit significand, ties to even (ArithPaths.ld_round / Cxx.ld_round)."""
    m = abs(z)
    if m < 2**64:
        return z
    e = m.bit_length() - 64
    q, r, half = m >> e, m & ((1 << e) - 1), 1 << (e - 1)
    if r > half or (r == half and q % 2 == 1):
        q += 1
    return (q << e) if z >= 0 else -(q << e)


def typed_closed(op, a, b):
    """ArithPaths.eval_ld: what the unchanged typed path computes on int64 operands."""
    if op in ("+", "-", "*"):
        q = ld_round({"+": a + b, "-": a - b, "*": a * b}[op])
        return ("val", q if in64(q) else I64_MIN)
    return closed_form(op, a, b)


def unary_closed(op, a):
    return ("val", {"+": a, "-": wrap64(-a), "!": int(a == 0), "~": ~a}[op])


# ------------------------------------------------------------------------------------------------
# (a) translation
# ------------------------------------------------------------------------------------------------

def regenerate(rep):
    """Re-translate both targets. Returns {"helpers": (info, status), "typed_chain": (info, status)}."""
    out = {}
    for target, dest, key in (("helpers", GEN, "generated_helpers"), ("typed_chain", CHAIN_GEN, "generated_typed_chain")):
        t0 = time.time()
        with common.Lock("c01-gen"):
            info, status = cxx_pure.regenerate(common.REPO, target, dest)
        rep.coverage[key] = {
            "translator": "translators/cxx_pure.py (clang++ -ast-dump=json -> coq/Cxx/Cxx.v terms)", "status": status,
            "source": info.get("source"), "clang_ast_cache": info.get("cache"), "clang_s": info.get("clang_s"),
            "functions": info.get("functions"), "problem": info.get("problem"), "wall_s": round(time.time() - t0, 2)}
        out[target] = (info, status)
    return out


# ------------------------------------------------------------------------------------------------
# (c) search for a failing input
# ------------------------------------------------------------------------------------------------

def _coq_z(n):
    return str(n) if n >= 0 else "(%d)" % n


CHAIN_FN = "fn_evaluate_binary_op_typed_chain"


def chain_args_term(gen_txt):
    """The Coq term for the chain's arguments on integer operands (a, b) = (fst p, snd p), built from the parameter list of the
    GENERATED function: the int64 / long double views of the operands, prefer_integral_result = true, truthy(..) as the
    operands say, every other boolean observation false. None if the generated function reads something else."""
    m = re.search(r"f_params := \[(.*?)\];\s*f_body", gen_txt, re.S)
    if not m:
        return None
    items = []
    for name, ty in re.findall(r'\("((?:[^"]|"")*)", (T\w+)\)', m.group(1)):
        if name in ("left_int", "left_quad"):
            v = "fst p"
        elif name in ("right_int", "right_quad"):
            v = "snd p"
        elif name == "prefer_integral_result" and ty == "TBool":
            v = "1"
        elif name == "truthy(left_value)" and ty == "TBool":
            v = "(if fst p =? 0 then 0 else 1)"
        elif name == "truthy(right_value)" and ty == "TBool":
            v = "(if snd p =? 0 then 0 else 1)"
        elif ty == "TBool":
            v = "0"
        else:
            return None
        items.append('("%s", (%s, %s))' % (name, ty, v))
    return "[" + "; ".join(items) + "]"


def coq_grid(which="helpers"):
    """Evaluate the generated functions on GRID x GRID x operators inside Coq. Returns {(fn, op, a, b): result} with
    result = ('val', z) | ('throw', m) | ('ub', what) | ('falloff',) | ('stuck', what) | ('call', builder, first argument, flag ok);
    None if the generated file does not compile."""
    gen_path = GEN if which == "helpers" else CHAIN_GEN
    gen_txt = open(gen_path).read()
    have = set(re.findall(r"^Definition (fn_\w+)", gen_txt, re.M))
    pairs = "[" + "; ".join("(%s, %s)" % (_coq_z(a), _coq_z(b)) for a in GRID for b in GRID) + "]"
    singles = "[" + "; ".join(_coq_z(a) for a in GRID) + "]"
    lines = ["From Coq Require Import ZArith String List.", "From Cb Require Import Cxx.Cxx C01.%s." % os.path.basename(gen_path)[:-2], "Import ListNotations.",
             "Local Open Scope string_scope.", "Local Open Scope Z_scope.", "Set Printing Width 100000.", "Set Printing Depth 10000000.",
             "Definition show (r : result) : Z * Z * string :=",
             "  match r with RVal (_, z) => (0, z, \"\") | RThrow m => (1, 0, m) | RUB w => (2, 0, w) | RFallOff => (3, 0, \"\") | RStuck w => (4, 0, w)",
             "  | RCall t vs => (match vs with [_; (_, 0)] => 6 | _ => 5 end, match vs with (_, z) :: _ => z | [] => 0 end, t)",
             "  | RVoid => (7, 0, \"\") | RNoFuel => (8, 0, \"\") end.",
             "Definition PAIRS : list (Z * Z) := %s." % pairs, "Definition SINGLES : list Z := %s." % singles]
    jobs = []
    if which == "typed_chain":
        args = chain_args_term(gen_txt)
        if CHAIN_FN not in have or args is None:
            return None, "the generated chain reads inputs the harness does not know how to set for integer operands"
        for op in ARITH + BITWISE + COMPARE + LOGICAL:
            jobs.append((CHAIN_FN, op, 2))
            lines.append('Eval vm_compute in map (fun p => show (run %s "%s" %s)) PAIRS.' % (CHAIN_FN, op, args))
    for op in (ARITH + BITWISE + COMPARE + LOGICAL if which == "helpers" else []):
        if FN_OF[op] in have:
            jobs.append((FN_OF[op], op, 2))
            lines.append('Eval vm_compute in map (fun p => show (run %s "%s" [("left", (TLong, fst p)); ("right", (TLong, snd p))])) PAIRS.' % (FN_OF[op], op))
    if which == "helpers" and "fn_evaluate_simple_unary" in have:
        for op in UNARY:
            jobs.append(("fn_evaluate_simple_unary", op, 1))
            lines.append('Eval vm_compute in map (fun a => show (run fn_evaluate_simple_unary "%s" [("operand", (TLong, a))])) SINGLES.' % op)
    txt = "\n".join(lines) + "\n"
    d = os.path.join(common.CACHE, "c01_helpers_grid")
    os.makedirs(d, exist_ok=True)
    name = "Grid_%s_%d" % (hashlib.sha256((txt + gen_txt).encode()).hexdigest()[:12], os.getpid())
    path = os.path.join(d, name + ".v")
    with open(path, "w") as fh:
        fh.write(txt)
    try:
        with common.Lock("coq"):
            # the generated file may have changed without `make` having got as far as compiling it
            common.sh(["coqc", "-Q", ".", "Cb", "Cxx/Cxx.v"], cwd=common.COQ, timeout=300) if not os.path.exists(os.path.join(common.COQ, "Cxx", "Cxx.vo")) else None
            rcg, og, eg = common.sh(["coqc", "-Q", ".", "Cb", "C01/" + os.path.basename(gen_path)], cwd=common.COQ, timeout=300)
            if rcg != 0:
                return None, os.path.basename(gen_path) + " does not compile: " + eg[-800:]
            rc, o, e = common.sh(["coqc", "-Q", common.COQ, "Cb", "-o", os.path.join(d, name + ".vo"), path], cwd=d, timeout=600)
        if rc != 0:
            return None, "grid evaluation failed: " + e[-800:]
    finally:
        for ext in (".v", ".vo", ".glob", ".vok", ".vos"):
            try:
                os.remove(os.path.join(d, name + ext))
            except OSError:
                pass
        for f in os.listdir(d):
            if f.startswith("." + name):
                try:
                    os.remove(os.path.join(d, f))
                except OSError:
                    pass
    blocks = re.findall(r"=\s*\[(.*?)\]\s*:\s*list", o, re.S)
    if len(blocks) != len(jobs):
        return None, "grid output not understood (%d blocks for %d jobs)" % (len(blocks), len(jobs))
    res = {}
    ent = re.compile(r'\((\d), (-?\d+), "((?:[^"]|"")*)"\)')
    for (fn, op, ar), blk in zip(jobs, blocks):
        items = ent.findall(blk)
        keys = [(a, b) for a in GRID for b in GRID] if ar == 2 else [(a, None) for a in GRID]
        if len(items) != len(keys):
            return None, "grid output not understood (%d entries for %s %s)" % (len(items), fn, op)
        for (a, b), (tag, z, m) in zip(keys, items):
            m = m.replace('""', '"')
            res[(fn, op, a, b)] = {"0": ("val", int(z)), "1": ("throw", m), "2": ("ub", m), "3": ("falloff",), "4": ("stuck", m),
                                   "5": ("call", m, int(z), True), "6": ("call", m, int(z), False), "7": ("void",), "8": ("nofuel",)}[tag]
    return res, None


def lit(v):
    """An int64 value as a Cb expression (the lexer has no negative literals; INT64_MIN cannot be written directly)."""
    if v >= 0:
        return str(v)
    if v == I64_MIN:
        return "(0 - 9223372036854775807 - 1)"
    return "(0 - %d)" % (-v)


def probe_program(cases):
    """One Cb program observing the int64 evaluation path (a bare non-comparison condition is evaluated by
    dispatcher.cpp -> ExpressionHelpers::evaluate_*_binary). Prints one line per case: 1 = the helper returned `expect`."""
    body = []
    for k, (op, a, b, expect) in enumerate(cases):
        body.append("    long a%d = %s; long b%d = %s; long r%d = %s;" % (k, lit(a), k, lit(b), k, lit(expect)))
        if op in LOGICAL:
            # dispatcher.cpp decides && / || itself when the left operand does; the helper sees the remaining cases
            body.append("    if (a%d %s b%d) { println(%d); } else { println(%d); }" % (k, op, k, 1 if expect else 0, 0 if expect else 1))
        else:
            probe = "-" if op in BITWISE else "^"      # observe through the OTHER helper
            body.append("    if ((a%d %s b%d) %s r%d) { println(0); } else { println(1); }" % (k, op, k, probe, k))
    return "int main() {\n" + "\n".join(body) + "\n    return 0;\n}\n"


def typed_probe_program(op, a, b):
    """The typed evaluation path: the argument of println (also initialisers, assignments, arguments, return)."""
    return "int main() {\n    long a0 = %s; long b0 = %s;\n    println(a0 %s b0);\n    return 0;\n}\n" % (lit(a), lit(b), op)


def run_probe(impl_dir, op, a, b, expect, path="int64"):
    """expect = ('val', r) | ('throw', msg). Returns (ok, observed-description, program)."""
    if path == "typed":
        prog = typed_probe_program(op, a, b)
    else:
        prog = probe_program([(op, a, b, expect[1] if expect[0] == "val" else 0)])
    rc, o, e = common.run_cb(impl_dir, prog)
    first_err = (e.strip().split("\n") or [""])[0][:300]
    if rc in (124, 134, 136, 139) or rc < 0:
        return False, {"rc": rc, "stdout": o[-200:], "stderr": e[-1500:], "crash": True}, prog
    if expect[0] == "val":
        ok = (rc == 0 and o.strip() == (str(expect[1]) if path == "typed" else "1"))
    else:
        ok = (rc != 0 and expect[1] in e)
    return ok, {"rc": rc, "stdout": o[-200:], "stderr": first_err if rc != 0 else e[-300:], "crash": False}, prog


def chain_value(r):
    """What the three result builders make of the chain's result on integer operands (TypedChainGen.builders)."""
    if r[0] == "call":
        if r[1] == "make_numeric_typed_value":
            return ("val", r[2] if in64(r[2]) else I64_MIN) if r[3] else ("float-result", r[2])
        if r[1] in ("make_integer_typed_value", "make_bool_typed_value"):
            return ("val", r[2])
        return ("unknown-builder", r[1])
    return r


def search(rep, which, status, tinfo, cq, impl):
    """Returns the payload of the violation and whether a concrete failing input was found.
    which = 'helpers' (int64 path, helpers.cpp) | 'typed_chain' (typed path, binary_unary.cpp)."""
    typed = which == "typed_chain"
    closed = typed_closed if typed else closed_form
    failed = cq.get("failed_theorem")
    payload = {"theorem": failed, "translator_status": status, "translator_problem": tinfo.get("problem"),
               "generated_file": "coq/C01/" + ("Gen_TypedChain.v" if typed else "Gen_Helpers.v"), "log": (cq.get("log") or "")[-2500:]}
    model, why = (None, "translator failed") if status == "failed" else coq_grid(which)
    payload["model_grid"] = "not available: %s" % why if model is None else "%d evaluations of the generated functions (vm_compute, coq/Cxx/Cxx.v)" % len(model)
    cands = []          # (priority, fn, op, a, b, model result, what)
    if model is not None:
        for (fn, op, a, b), r0 in sorted(model.items(), key=lambda kv: (kv[0][0], kv[0][1], abs(kv[0][2]) + abs(kv[0][3] or 0), kv[0][2], kv[0][3] or 0)):
            r = chain_value(r0) if typed else r0
            if b is None:
                cl = unary_closed(op, a)
                if r != cl:
                    cands.append((3, fn, op, a, b, r, "generated evaluate_simple_unary gives %s, the theorem states %s" % (r, cl)))
                continue
            ref, cl = reference(op, a, b), closed(op, a, b)
            if r == cl:
                continue
            if ref[0] == "val" and r != ref:
                cands.append((0, fn, op, a, b, r, "reference %d, generated %s" % (ref[1], r)))
            elif ref[0] == "div0" and not (r[0] == "throw" and r[1] in ("Division by zero", "Modulo by zero")):
                cands.append((0, fn, op, a, b, r, "reference: division by zero is an error, generated %s" % (r,)))
            elif r[0] in ("ub", "falloff", "stuck"):
                cands.append((1, fn, op, a, b, r, "generated function reaches %s" % (r,)))
            else:
                cands.append((2, fn, op, a, b, r, "generated %s, closed form of the theorems %s" % (r, cl)))
        cands.sort(key=lambda c: c[0])
        payload["model_disagreements"] = len(cands)
        payload["model_witnesses"] = [{"function": c[1], "op": c[2], "a": c[3], "b": c[4], "generated": list(c[5]), "what": c[6]} for c in cands[:6]]
    # which operand pairs to try on the real binary: the model's witnesses first; without a model (translator failed) the whole grid
    trials = []
    for c in cands:
        if c[1] in UNREACHABLE or c[4] is None:
            continue
        trials.append((c[2], c[3], c[4], c[5], c[0]))
    if model is None:
        for op in ARITH + BITWISE + LOGICAL + (COMPARE if typed else []):
            for a in GRID:
                for b in GRID:
                    trials.append((op, a, b, None, 2))
    found = None
    asan_dir = None
    tried = 0
    t0 = time.time()
    for op, a, b, mres, prio in trials:
        if time.time() - t0 > 240:
            break
        if op in LOGICAL and ((op == "&&" and a == 0) or (op == "||" and a != 0)):
            continue                      # decided before the helper / the chain is reached
        expect = closed(op, a, b)
        ref = reference(op, a, b)
        tried += 1
        ok, obs, prog = run_probe(impl, op, a, b, expect, "typed" if typed else "int64")
        concrete = (not ok) and (obs["crash"] or ref[0] in ("val", "div0"))
        if concrete:
            found = {"op": op, "a": a, "b": b, "program": prog, "expected": list(expect), "reference": list(ref), "observed": obs, "build": "plain",
                     "path": "typed" if typed else "int64",
                     "why": ("the interpreter dies with a signal (exit status %s)" % obs["rc"]) if obs["crash"] else
                            "the interpreter computes a wrong result on a program whose meaning is defined"}
            break
        if mres is not None and mres[0] == "ub" and tried <= 12:
            # undefined behaviour in the model: ask the sanitizers
            if asan_dir is None:
                asan_dir = common.build_impl("asan")
            rc, o, e = common.run_cb(asan_dir, prog, timeout=60)
            if "runtime error" in e or "AddressSanitizer" in e or rc in (134, 136, 139):
                found = {"op": op, "a": a, "b": b, "program": prog, "expected": list(expect), "reference": list(ref), "build": "asan",
                         "path": "typed" if typed else "int64",
                         "observed": {"rc": rc, "stdout": o[-200:], "stderr": e[-1500:]}, "model": list(mres),
                         "why": "undefined behaviour (%s) reported by UBSan/ASan" % mres[1]}
                break
        if not ok and found is None and "soft" not in payload:
            payload["soft"] = {"op": op, "a": a, "b": b, "program": prog, "expected": list(expect), "observed": obs,
                               "note": "differs from the closed form of the theorems, but the reference semantics leaves this input undefined"}
    payload["implementation_probes"] = tried
    dead = sorted(set(c[1] for c in cands if c[1] in UNREACHABLE))
    if dead:
        payload["unreachable"] = {fn: UNREACHABLE[fn] for fn in dead}
    if found:
        payload["failing_input"] = found
        payload["program"] = found["program"]
    return payload, found is not None


def _theorems(rel):
    try:
        return re.findall(r"^\s*Theorem\s+(\w+)", common.strip_coq_comments(open(os.path.join(common.COQ, rel)).read()), re.M)
    except OSError:
        return []


def broken_obligations(cq):
    """Which of the two generated developments has an obligation that no longer checks?  (A lemma file that merely could
    not be rebuilt because the file it depends on failed is not counted.)  Returns {which: "lemma (file:line)"}."""
    if cq.get("ok"):
        return {}
    rc, out = common.coq_make(["C01/HelpersGen.vo", "C01/TypedChainGen.vo", "C01/Properties_C01_helpers.vo", "C01/Properties_C01_typedchain.vo"])
    res = {}
    for which, files in (("helpers", HELPER_FILES), ("typed_chain", CHAIN_FILES)):
        for f in files:
            m = re.search(r'File "\./%s", line (\d+)' % re.escape(f), out)
            if not m:
                continue
            name = None
            try:
                for l in open(os.path.join(common.COQ, f)).read().split("\n")[:int(m.group(1))]:
                    mm = re.match(r"\s*(?:Lemma|Theorem)\s+([A-Za-z0-9_']+)", l)
                    if mm:
                        name = mm.group(1)
            except OSError:
                pass
            res[which] = "%s (%s:%s)" % (name, f, m.group(1))
            break
    return res


def after_check(rep, gen, cq, impl):
    """gen = the result of regenerate(). Returns True if every broken obligation of C01 was reported here (the caller then
    does not report the proof failure again)."""
    broken = broken_obligations(cq)
    reported_all = bool(broken)
    for which, cov, thm_file, what in (("helpers", "generated_helpers", HELPER_THEOREMS_FILE, "helpers.cpp"),
                                       ("typed_chain", "generated_typed_chain", CHAIN_THEOREMS_FILE, "the dispatch chain of evaluate_binary_op_typed (binary_unary.cpp)")):
        tinfo, status = gen[which]
        if status != "failed" and which not in broken:
            continue
        t0 = time.time()
        cq1 = dict(cq)
        cq1["failed_theorem"] = broken.get(which, cq.get("failed_theorem"))
        payload, concrete = search(rep, which, status, tinfo, cq1, impl)
        payload["theorems_behind_it"] = _theorems(thm_file)
        payload["search_s"] = round(time.time() - t0, 1)
        rep.coverage[cov]["failure_search"] = {k: payload.get(k) for k in ("model_grid", "model_disagreements", "implementation_probes", "search_s")}
        if status == "failed":
            text = "cxx_pure.py cannot translate %s (%s): %s no longer speaks about the code" % (
                what, ((tinfo.get("problem") or {}).get("text", "?"))[:200], os.path.basename(thm_file))
        else:
            text = "obligation %s about the definition generated from %s no longer checks" % (broken[which], what)
        if concrete:
            f = payload["failing_input"]
            text += "; failing input `%s %s %s` on the %s path: %s (%s build)" % (f["a"], f["op"], f["b"], f["path"], f["why"], f["build"])
        elif payload.get("model_witnesses"):
            w = payload["model_witnesses"][0]
            text += "; the generated function deviates at `%s %s %s` (%s)" % (w["a"], w["op"], w["b"], w["what"])
            if payload.get("unreachable"):
                text += "; " + "; ".join(payload["unreachable"].values())
        rep.violation(which.replace("_", ""), payload, text, no_failing_input=not concrete)
    if not cq.get("ok") and not broken:
        return False
    # a failure elsewhere in C01 (Properties_C01.v, ...) is still the caller's to report
    other = str(cq.get("failed_theorem") or "")
    if other and not any(f in other for f in HELPER_FILES + CHAIN_FILES) and other not in _theorems(HELPER_THEOREMS_FILE) + _theorems(CHAIN_THEOREMS_FILE):
        return False
    return reported_all
