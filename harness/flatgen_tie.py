"""Tie between /repo's Variable::calculate_flat_index (core/interpreter.h), the copies of its loop in the `array_dimensions`
branches of ArrayManager::get/setMultidimensional*ArrayElement* (managers/arrays/manager.cpp) and the theorems of
coq/C05/Properties_C05_cxx.v (work package X3).

On every run of ./check C05:
  regenerate(rep)        translators/cxx_pure.py re-translates clang's AST of the function's current C++ text into
                         coq/C05/Gen_FlatIndex.v (written only when it changed; clang's AST is cached per source hash);
  (coq_check_props re-checks the theorems about the generated term: generated = Model.calc_flat for all extents / indices
   under the stated side conditions, no undefined behaviour, row-major bijection)
  after_check(rep, ...)  nothing to do while the translator succeeded and every obligation checks.  Otherwise: SEARCH for a
                         concrete failing (extents, indices): evaluate the generated function inside Coq (vm_compute,
                         coq/Cxx/Cxx.v semantics, coq/C05/FlatIndexSearch.v) on the exhaustive small shapes the check
                         enumerates anyway + int-boundary indices + rank mismatches, compare with the hand-written model;
                         replay the deviations on the leaf driver that links /repo's own interpreter.h (and on a UBSan
                         build of it when the generated function reaches undefined behaviour), those of the ArrayManager
                         branches as Cb programs (element write / read on global and struct-member arrays; the float read
                         path as reads of double arrays) on the real binary; without a model (translator failed) the leaf driver is compared with the property's own
                         reading on the whole exhaustive stream.  VIOLATION with that replay; `no_failing_input` only if
                         none is found.
"""
import hashlib
import os
import re
import sys
import time

import common

sys.path.insert(0, os.path.join(common.VERIF, "translators"))
import cxx_pure  # noqa: E402

PROP = "C05"
GEN = os.path.join(common.COQ, PROP, "Gen_FlatIndex.v")
THEOREMS_FILE = "C05/Properties_C05_cxx.v"
GEN_FILES = ("C05/Gen_FlatIndex.v", "C05/FlatIndexGen.v", "C05/FlatIndexCopiesGen.v", "C05/Properties_C05_cxx.v", "Cxx/Cxx.v", "Cxx/CxxLemmas.v")
WHAT = "Variable::calculate_flat_index"
# ArrayManager::get/setMultidimensional*ArrayElement* (managers/arrays/manager.cpp), StructOperations::get_struct_member_multidim_array_element
# (managers/structs/operations.cpp), the float read path of evaluate_typed_expression_internal (evaluator/core/evaluator.cpp)
WHAT_COPIES = "the flat-index loop copies (manager.cpp / operations.cpp / evaluator.cpp)"
LEAF = ("c05_flatidx", ["src/common/debug_impl.cpp", "src/common/debug_messages.cpp"])
UBSAN_FLAGS = "-g -fsanitize=undefined -fno-sanitize-recover=all"


def regenerate(rep):
    t0 = time.time()
    with common.Lock("c05-gen"):
        info, status = cxx_pure.regenerate(common.REPO, "flat_index", GEN)
    rep.coverage["generated_flat_index"] = {
        "translator": "translators/cxx_pure.py (clang++ -ast-dump=json -> coq/Cxx/Cxx.v terms)", "status": status,
        "source": info.get("source"), "clang_ast_cache": info.get("cache"), "clang_s": info.get("clang_s"),
        "functions": info.get("functions"), "problem": info.get("problem"), "wall_s": round(time.time() - t0, 2)}
    return info, status


def _theorems(rel):
    try:
        return re.findall(r"^\s*Theorem\s+(\w+)", common.strip_coq_comments(open(os.path.join(common.COQ, rel)).read()), re.M)
    except OSError:
        return []


def broken_obligation(cq):
    """The first lemma / theorem of the generated development that no longer checks: "name (file:line)"; None if the
    failure of C05 lies elsewhere."""
    if cq.get("ok"):
        return None
    rc, out = common.coq_make(["C05/FlatIndexGen.vo", "C05/FlatIndexCopiesGen.vo", "C05/Properties_C05_cxx.vo"])
    for f in GEN_FILES:
        m = re.search(r'File "\./%s", line (\d+)' % re.escape(f), out)
        if not m:
            continue
        name = None
        try:
            for l in open(os.path.join(common.COQ, f)).read().split("\n")[:int(m.group(1))]:
                mm = re.match(r"\s*(?:Lemma|Theorem|Definition)\s+([A-Za-z0-9_']+)", l)
                if mm:
                    name = mm.group(1)
        except OSError:
            pass
        return "%s (%s:%s)" % (name, f, m.group(1))
    return None


# ------------------------------------------------------------------------------------------------
# search
# ------------------------------------------------------------------------------------------------

def coq_search(n=8):
    """Evaluate the generated function on the small scopes inside Coq.  Returns (evaluations, [deviation dicts]) or
    (None, reason)."""
    rc, out = common.coq_make(["C05/FlatIndexSearch.vo"])
    if rc != 0:
        return None, "the generated file does not compile: " + out[-600:]
    txt = "\n".join(["From Coq Require Import ZArith String List.", "From Cb Require Import C05.FlatIndexSearch.", "Import ListNotations.",
                     "Local Open Scope string_scope.", "Local Open Scope Z_scope.", "Set Printing Width 100000.", "Set Printing Depth 10000000.",
                     "Eval vm_compute in search %d." % n, "Eval vm_compute in search_copies 4."]) + "\n"
    d = os.path.join(common.CACHE, "c05_flatgen")
    os.makedirs(d, exist_ok=True)
    name = "Search_%s_%d" % (hashlib.sha256((txt + open(GEN).read()).encode()).hexdigest()[:12], os.getpid())
    path = os.path.join(d, name + ".v")
    with open(path, "w") as fh:
        fh.write(txt)
    try:
        with common.Lock("coq"):
            rc, o, e = common.sh(["coqc", "-Q", common.COQ, "Cb", "-o", os.path.join(d, name + ".vo"), path], cwd=d, timeout=900)
        if rc != 0:
            return None, "evaluation failed: " + e[-600:]
    finally:
        for f in os.listdir(d):
            if f.startswith(name) or f.startswith("." + name):
                try:
                    os.remove(os.path.join(d, f))
                except OSError:
                    pass
    m = re.search(r"=\s*\((\d+),\s*\[(.*?)\]\)\s*:\s*Z \* list", o, re.S)
    mc = re.search(r"=\s*\[(\(\"get_typed\".*)\]\s*:\s*list \(string", o, re.S)
    if not m or not mc:
        return None, "search output not understood: " + o[:300]
    evals, body = int(m.group(1)), m.group(2)
    item = re.compile(r'\(\[([-\d; ]*)\], \[([-\d; ]*)\], \((\d), (-?\d+), "((?:[^"]|"")*)"\), \((\d), (-?\d+), "((?:[^"]|"")*)"\)\)')
    kinds = {"0": "val", "1": "throw", "2": "ub", "3": "falloff", "4": "stuck", "5": "other", "8": "nofuel"}

    def res(tag, z, msg):
        k = kinds.get(tag, "other")
        return [k, int(z)] if k == "val" else [k, msg.replace('""', '"')] if k in ("throw", "ub", "stuck") else [k]
    def items(text, extra=None):
        out = []
        for dm in item.finditer(text):
            dims = [int(x) for x in dm.group(1).split(";") if x.strip()]
            idxs = [int(x) for x in dm.group(2).split(";") if x.strip()]
            d = {"dims": dims, "idxs": idxs, "generated": res(*dm.group(3, 4, 5)), "model": res(*dm.group(6, 7, 8))}
            d.update(extra or {})
            out.append(d)
        return out
    devs = items(body)
    # the copies: ("name", (evaluations, [items])) ; ...
    for cm in re.finditer(r'\("(\w+)", \((\d+), \[(.*?)\]\)\)(?=; \("|$)', mc.group(1), re.S):
        evals += int(cm.group(2))
        devs += items(cm.group(3), {"copy": cm.group(1)})
    return evals, devs


def leaf_line(dims, idxs):
    return "flat %s | %s" % (",".join(map(str, dims)), ",".join(map(str, idxs)))


def spec_of(dims, idxs):
    """The property's own reading: the row-major cell of an in-range tuple, a rejection otherwise."""
    if len(dims) == len(idxs) and all(0 <= i < d for d, i in zip(dims, idxs)):
        k = 0
        for d, i in zip(dims, idxs):
            k = k * d + i
        return str(k)
    return "ERR"


def build_leaf(flags=""):
    path = common.build_leaf(LEAF[0], LEAF[1], flags)
    try:
        os.utime(os.path.dirname(path), None)      # a cached driver older than an hour may be pruned by a concurrent check
    except OSError:
        pass
    return path


def run_leaf(binary, lines, flags=""):
    data = ("\n".join(lines) + "\n").encode()
    try:
        rc, o, e = common.sh([binary], input=data, timeout=600)
    except FileNotFoundError:                          # pruned meanwhile: build it again
        rc, o, e = common.sh([build_leaf(flags)], input=data, timeout=600)
    return rc, o.split("\n")[:-1], e


def search(rep, status, tinfo, failed, leaf_lines, program_replay=None, program_sweep=None):
    """Returns (payload, concrete?).  program_replay(copy name, extents, indices) -> replay payload of a Cb program on which
    the real binary violates the property, or None; program_sweep() -> the same, found by running element accesses on small
    N-D global / struct-member arrays (used when there is no model to point at an input)."""
    payload = {"kind": "leaf", "theorem": failed, "translator_status": status, "translator_problem": tinfo.get("problem"),
               "generated_file": "coq/C05/Gen_FlatIndex.v", "function": WHAT}
    leaf = build_leaf()
    found = None
    devs = []
    if status != "failed":
        evals, devs = coq_search()
        if evals is None:
            payload["model_search"] = "not available: %s" % devs
            devs = []
        else:
            payload["model_search"] = "%d evaluations of the generated function (vm_compute, coq/Cxx/Cxx.v): %d deviation(s) from Model.calc_flat listed" % (evals, len(devs))
            payload["model_witnesses"] = devs[:6]
    else:
        payload["model_search"] = "not available: the translator failed"
    # replay the model's witnesses on the real function
    ubsan = None
    for dv in devs:
        if dv.get("copy"):
            # a branch of ArrayManager: replay as an element access of a Cb program
            if program_replay is None or len(dv["dims"]) != len(dv["idxs"]):
                continue
            got = program_replay(dv["copy"], dv["dims"], dv["idxs"])
            if got is not None:
                found = {"line": "%s a%s on %s %s%s" % (got["ops"][0][0], "".join("[%d]" % i for i in dv["idxs"]), got["loc"], got.get("elem", "int"), "".join("[%d]" % d for d in dv["dims"])),
                         "generated": dv["generated"], "model": dv["model"], "build": "plain", "program_case": got,
                         "why": "main violates the property on the generated program (branch %s)" % dv["copy"]}
                break
            continue
        line = leaf_line(dv["dims"], dv["idxs"])
        rc, out, err = run_leaf(leaf, [line])
        got = out[0] if out else "(no output, rc=%d)" % rc
        sp = spec_of(dv["dims"], dv["idxs"])
        if got != sp:
            found = {"line": line, "impl": got, "spec": sp, "generated": dv["generated"], "model": dv["model"], "build": "plain",
                     "why": "/repo's calculate_flat_index %s, property demands %s" % (
                         "returns " + got if got != "ERR" else "rejects the access", sp if sp != "ERR" else "a rejection")}
            break
        if dv["generated"][0] == "ub":
            if ubsan is None:
                try:
                    ubsan = build_leaf(UBSAN_FLAGS)
                except common.BuildError as ex:
                    payload["ubsan_build"] = str(ex)[-400:]
                    ubsan = False
            if ubsan:
                rc, out, err = run_leaf(ubsan, [line], UBSAN_FLAGS)
                if "runtime error" in err or rc not in (0,):
                    found = {"line": line, "impl": (out[0] if out else "(died, rc=%d)" % rc), "spec": sp, "generated": dv["generated"],
                             "model": dv["model"], "build": "ubsan", "stderr": err[-600:],
                             "why": "UBSan reports undefined behaviour (%s) in /repo's calculate_flat_index" % dv["generated"][1]}
                    break
    # no witness from the model (or none that shows on the real function): the real function against the property's own reading
    if found is None and program_sweep is not None and (status == "failed" or any(dv.get("copy") for dv in devs)):
        got = program_sweep()
        if got is not None:
            found = {"line": "%s a%s on %s %s%s" % (got["ops"][0][0], "".join("[%d]" % i for i in got["ops"][0][1]), got["loc"], got.get("elem", "int"), "".join("[%d]" % d for d in got["dims"])),
                     "build": "plain", "program_case": got,
                     "why": "main violates the property on this element access of a generated program"}
    if found is None:
        rc, out, err = run_leaf(leaf, leaf_lines)
        payload["implementation_lines"] = len(leaf_lines)
        if rc == 0 and len(out) == len(leaf_lines):
            for l, got in zip(leaf_lines, out):
                d, t = l[5:].split("|")
                dims = [int(x) for x in d.split(",") if x.strip()]
                idxs = [int(x) for x in t.split(",") if x.strip()]
                sp = spec_of(dims, idxs)
                if got != sp:
                    found = {"line": l, "impl": got, "spec": sp, "build": "plain",
                             "why": "/repo's calculate_flat_index %s, property demands %s" % (
                                 "returns " + got if got != "ERR" else "rejects the access", sp if sp != "ERR" else "a rejection")}
                    break
    if found:
        payload["failing_input"] = found
        if "program_case" in found:
            # make the replay file a program replay (./check C05 --replay runs it)
            pc = found.pop("program_case")
            payload.update(pc)
        else:
            payload["line"] = found["line"]
            payload["impl"], payload["spec"] = found["impl"], found["spec"]
    return payload, found is not None


def after_check(rep, gen, cq, leaf_lines, program_replay=None, program_sweep=None):
    """gen = the result of regenerate().  Returns True if the failure of C05's obligations was reported here."""
    tinfo, status = gen
    broken = broken_obligation(cq)
    if status != "failed" and broken is None:
        return False
    t0 = time.time()
    copies = ("FlatIndexCopiesGen" in (broken or "")) or any(
        k in str((tinfo.get("problem") or {}).get("function") or "") for k in ("ArrayManager", "StructOperations", "ExpressionEvaluator"))
    payload, concrete = search(rep, status, tinfo, broken or cq.get("failed_theorem"), leaf_lines, program_replay,
                               program_sweep if copies else None)
    what = WHAT_COPIES if copies else WHAT
    payload["theorems_behind_it"] = _theorems(THEOREMS_FILE)
    payload["log"] = (cq.get("log") or "")[-2000:]
    payload["search_s"] = round(time.time() - t0, 1)
    rep.coverage["generated_flat_index"]["failure_search"] = {k: payload.get(k) for k in ("model_search", "implementation_lines", "search_s")}
    if status == "failed":
        pr = tinfo.get("problem") or {}
        text = "cxx_pure.py cannot translate %s (%s line %s: %s): %s no longer speaks about the code" % (
            what, str(pr.get("function", "?")).split("|")[0], pr.get("line"), str(pr.get("why", "?"))[:70], os.path.basename(THEOREMS_FILE))
    else:
        text = "obligation %s (generated from %s) no longer checks" % (broken, what)
    if concrete:
        f = payload["failing_input"]
        text += "; failing input '%s': %s (%s build)" % (f["line"], f["why"], f["build"])
    elif payload.get("model_witnesses"):
        w = payload["model_witnesses"][0]
        text += "; the generated %s deviates from the model at extents %s indices %s (generated %s, model %s) but no run of the compiled code shows a difference there" % (
            "branch " + w["copy"] if w.get("copy") else "function", w["dims"], w["idxs"], w["generated"], w["model"])
    rep.violation("flatgen", payload, text, no_failing_input=not concrete)
    # a failure elsewhere in C05 (Properties_C05.v) stays the caller's to report
    other = str(cq.get("failed_theorem") or "")
    if not cq.get("ok") and broken is None and other:
        return False
    return True
