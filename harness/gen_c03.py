"""Generator of CbCore programs (S-expressions, grammar in ocaml/lang_driver.ml) aimed at property C03:
expressions whose operands are calls to tracing functions (print a label, return a value) or failing
functions (print a label, then divide by zero), placed in every evaluation context.

The transcript IS the event order: each label is unique inside a program, so the printed labels tell
which operands were evaluated, how often and in which order.

All randomness comes from the `rng` passed in.  Every program carries a small feature set (`feats`)
used for the coverage histogram and for matching recorded findings.
"""

# function ids of the prelude
F_T, F_BAD, F_ID, F_ARGS3, F_RET, F_T2 = 1, 2, 3, 4, 5, 6
# variable ids
V_K, V_V, V_Z, V_A, V_B, V_C, V_X, V_ARR, V_MAT, V_G, V_I, V_D, V_N, V_CUBE, V_NARROW = range(1, 16)

ARITH = ["+", "-", "*", "/", "%", "&", "|", "^", "<<", ">>"]
CMP = ["<", "<=", ">", ">=", "==", "!="]
BINOPS = ARITH + CMP
CONTEXTS = ["init", "assign", "compound", "cond-if", "cond-while", "cond-for", "index", "index-store", "arg", "ret",
            "print", "print2", "elem-store", "stmt"]

PRELUDE = [
    # long t(long k, long v) { println(k); return v; }
    "(F %d long ((%d long) (%d long)) ((print 1 (v %d)) (ret (v %d))))" % (F_T, V_K, V_V, V_K, V_V),
    # long bad(long k) { println(k); long z = 0; return k / z; }
    "(F %d long ((%d long)) ((print 1 (v %d)) (decl 0 0 long %d 0) (ret (bin / (v %d) (v %d)))))" % (F_BAD, V_K, V_K, V_Z, V_K, V_Z),
    # long id(long a) { return a; }
    "(F %d long ((%d long)) ((ret (v %d))))" % (F_ID, V_A, V_A),
    # long args3(long a, long b, long c) { println(a, b, c); return a; }
    "(F %d long ((%d long) (%d long) (%d long)) ((print 1 (v %d) (v %d) (v %d)) (ret (v %d))))" % (
        F_ARGS3, V_A, V_B, V_C, V_A, V_B, V_C, V_A),
]

GLOBALS = [
    "(G 0 long %d (4) (10 11 12 13))" % V_ARR,             # long[4] arr
    "(G 0 long %d (2 3) (20 21 22 23 24 25))" % V_MAT,     # long[2][3] mat
    "(G 0 long %d (2 2 2) (30 31 32 33 34 35 36 37))" % V_CUBE,
    "(G 0 long %d () (7))" % V_G,
]


def tr(k, v):
    return "(call %d %d %d)" % (F_T, k, v)


def bad(k):
    return "(call %d %d)" % (F_BAD, k)


class Labels:
    """unique operand labels 101, 102, ... (distinct from every value used)"""
    def __init__(self, start=100):
        self.n = start

    def next(self):
        self.n += 1
        return self.n


def program(ctx, e, extra_funcs=(), pre=""):
    """Place expression `e` (which only uses calls, literals and globals) into context `ctx`."""
    funcs = list(PRELUDE) + list(extra_funcs)
    x = V_X
    if ctx == "init":
        body = "(decl 0 0 long %d %s) (print 1 (v %d))" % (x, e, x)
    elif ctx == "assign":
        body = "(decl 0 0 long %d 0) (asg (v %d) %s) (print 1 (v %d))" % (x, x, e, x)
    elif ctx == "compound":
        body = "(decl 0 0 long %d 1) (casg + (v %d) %s) (print 1 (v %d))" % (x, x, e, x)
    elif ctx == "cond-if":
        body = "(if %s ((print 1 1)) ((print 1 0)))" % e
    elif ctx == "cond-while":
        body = "(decl 0 0 long %d 0) (while %s ((asg (v %d) (bin + (v %d) 1)) (if (bin >= (v %d) 2) ((break)) ()))) (print 1 (v %d))" % (x, e, x, x, x, x)
    elif ctx == "cond-for":
        body = "(for ((decl 0 0 long %d 0)) %s ((asg (v %d) (bin + (v %d) 1))) ((print 1 (v %d)) (if (bin >= (v %d) 1) ((break)) ())))" % (x, e, x, x, x, x)
    elif ctx == "index":
        body = "(decl 0 0 long %d (bin + (idx %d (bin & %s 3)) 0)) (print 1 (v %d))" % (x, V_ARR, e, x)
    elif ctx == "index-store":
        body = "(asg (idx %d (bin & %s 3)) 99) (print 1 (idx %d 0) (idx %d 1) (idx %d 2) (idx %d 3))" % (V_ARR, e, V_ARR, V_ARR, V_ARR, V_ARR)
    elif ctx == "arg":
        body = "(decl 0 0 long %d (call %d %s)) (print 1 (v %d))" % (x, F_ID, e, x)
    elif ctx == "ret":
        funcs.append("(F %d long () ((ret %s)))" % (F_RET, e))
        body = "(decl 0 0 long %d (call %d)) (print 1 (v %d))" % (x, F_RET, x)
    elif ctx == "print":
        body = "(print 1 %s)" % e
    elif ctx == "print2":
        body = "(print 1 5 %s 6)" % e
    elif ctx == "elem-store":
        body = "(asg (idx %d 1) %s) (print 1 (idx %d 1))" % (V_ARR, e, V_ARR)
    elif ctx == "stmt":
        body = "(expr %s) (print 1 9)" % e
    else:
        raise ValueError(ctx)
    return "(P (%s) (%s) (%s %s))" % (" ".join(GLOBALS), " ".join(funcs), pre, body)


# ------------------------------------------------------------------------------------------------
# systematic part: every operator x operand-value combinations x every context
# ------------------------------------------------------------------------------------------------
VALS = [0, 1, 2, -1]


def systematic(avoid=True):
    """Yields (sexpr, feats). With avoid=True the operand that the reference semantics skips is effect-free
    (a literal), so an implementation without short-circuit still produces the same transcript; the
    deciding/non-deciding split for traced right operands is in `reproducers`."""
    for ctx in CONTEXTS:
        # binary operators: both operands traced, all value combinations
        for op in BINOPS:
            for a in VALS:
                for b in VALS:
                    if op in ("<<", ">>") and b < 0:
                        continue
                    e = "(bin %s %s %s)" % (op, tr(101, a), tr(102, b))
                    yield program(ctx, e), ("bin" + op, ctx, "traced")
            # left operand fails: the right one must not be evaluated
            yield program(ctx, "(bin %s %s %s)" % (op, bad(101), tr(102, 1))), ("bin" + op, ctx, "left-fails")
            yield program(ctx, "(bin %s %s %s)" % (op, tr(101, 1), bad(102))), ("bin" + op, ctx, "right-fails")
        for op in ("-", "!", "~"):
            for a in VALS:
                yield program(ctx, "(un %s %s)" % (op, tr(101, a))), ("un" + op, ctx, "traced")
        # logical operators
        for op, decides in (("and", lambda a: a == 0), ("or", lambda a: a != 0)):
            for a in VALS:
                for b in VALS:
                    if decides(a) and avoid:
                        e = "(%s %s %d)" % (op, tr(101, a), b)                   # skipped operand is a literal
                        yield program(ctx, e), (op, ctx, "lhs-decides-quiet-rhs")
                    elif decides(a):
                        e = "(%s %s %s)" % (op, tr(101, a), tr(102, b))
                        yield program(ctx, e), (op, ctx, "lhs-decides-traced-rhs")
                    else:
                        e = "(%s %s %s)" % (op, tr(101, a), tr(102, b))
                        yield program(ctx, e), (op, ctx, "lhs-open-traced-rhs")
            if not avoid:
                a0 = 0 if op == "and" else 1
                yield program(ctx, "(%s %s %s)" % (op, tr(101, a0), bad(102))), (op, ctx, "lhs-decides-failing-rhs")
            a1 = 1 if op == "and" else 0
            yield program(ctx, "(%s %s %s)" % (op, tr(101, a1), bad(102))), (op, ctx, "lhs-open-failing-rhs")
            yield program(ctx, "(%s %s %s)" % (op, bad(101), tr(102, 1))), (op, ctx, "lhs-fails")
        # conditional: only the selected branch, whatever the other one would do
        for c in VALS:
            yield program(ctx, "(cond %s %s %s)" % (tr(101, c), tr(102, 5), tr(103, 6))), ("cond", ctx, "traced")
            yield program(ctx, "(cond %s %s %s)" % (tr(101, c), tr(102, 5) if c else bad(102), bad(103) if c else tr(103, 6))), ("cond", ctx, "other-branch-fails")
            yield program(ctx, "(cond %s %s %s)" % (tr(101, c), bad(102) if c else tr(102, 5), tr(103, 6) if c else bad(103))), ("cond", ctx, "selected-branch-fails")
        yield program(ctx, "(cond %s %s %s)" % (bad(101), tr(102, 5), tr(103, 6))), ("cond", ctx, "condition-fails")
        # call arguments
        for perm in ((1, 2, 3), (3, 2, 1), (0, 0, 0)):
            e = "(call %d %s %s %s)" % (F_ARGS3, tr(101, perm[0]), tr(102, perm[1]), tr(103, perm[2]))
            yield program(ctx, e), ("args", ctx, "traced")
        for pos in range(3):
            ops = [tr(101 + j, j + 1) if j != pos else bad(101 + j) for j in range(3)]
            yield program(ctx, "(call %d %s)" % (F_ARGS3, " ".join(ops))), ("args", ctx, "arg%d-fails" % pos)
        # one-dimensional index
        for i in (0, 1, 3):
            yield program(ctx, "(bin + (idx %d %s) 0)" % (V_ARR, tr(101, i))), ("index1", ctx, "traced")
        yield program(ctx, "(bin + (idx %d %s) 0)" % (V_ARR, bad(101))), ("index1", ctx, "index-fails")
        # the guards of the property text
        for d in (0, 1, 3, -2):
            pre = "(decl 0 0 long %d %d) (decl 0 0 long %d 10)" % (V_D, d, V_N)
            if ctx != "ret":
                g = "(and (bin != (v %d) 0) (bin > (bin / (v %d) (v %d)) 1))" % (V_D, V_N, V_D)
                yield program(ctx, g, pre=pre), ("guard-div", ctx, "d=%d" % d)
        for i in (0, 2, 3, 4, 7, -1):
            pre = "(decl 0 0 long %d %d) (decl 0 0 long %d 4)" % (V_I, i, V_N)
            if ctx != "ret":
                g = "(and (and (bin >= (v %d) 0) (bin < (v %d) (v %d))) (bin > (bin + (idx %d (v %d)) 0) 11))" % (V_I, V_I, V_N, V_ARR, V_I)
                yield program(ctx, g, pre=pre), ("guard-index", ctx, "i=%d" % i)


# ------------------------------------------------------------------------------------------------
# random expression trees over traced / failing leaves
# ------------------------------------------------------------------------------------------------
class TreeGen:
    def __init__(self, rng, avoid=True, p_bad=0.05, multi_index=False):
        self.r = rng
        self.avoid = avoid
        self.p_bad = p_bad
        self.multi_index = multi_index
        self.lab = Labels()
        self.feats = set()

    def leaf(self, quiet=False):
        r = self.r
        if quiet:
            return str(r.choice([0, 1, 2, 3, -1, 5]))
        k = r.random()
        if k < self.p_bad:
            self.feats.add("failing-operand")
            return bad(self.lab.next())
        if k < 0.80:
            return tr(self.lab.next(), r.choice([0, 0, 1, 1, 2, 3, -1, 5]))
        if k < 0.9:
            return "(v %d)" % V_G
        return str(r.choice([0, 1, 2, 3, -1]))

    def quiet(self, d):
        """an operand that cannot fail and has no effect"""
        r = self.r
        if d <= 0 or r.random() < 0.5:
            return self.leaf(quiet=True) if r.random() < 0.7 else "(v %d)" % V_G
        return "(bin %s %s %s)" % (r.choice(CMP + ["&", "|", "^", "+", "-"]), self.quiet(d - 1), self.quiet(d - 1))

    def expr(self, d):
        r = self.r
        if d <= 0 or r.random() < 0.15:
            return self.leaf()
        k = r.random()
        if k < 0.30:
            op = r.choice(BINOPS)
            self.feats.add("bin" + op)
            b = self.expr(d - 1)
            if op in ("<<", ">>"):
                b = "(bin & %s 7)" % b
            return "(bin %s %s %s)" % (op, self.expr(d - 1), b)
        if k < 0.52:
            op = r.choice(["and", "or"])
            self.feats.add(op)
            a = self.expr(d - 1)
            b = self.quiet(d - 1) if self.avoid else self.expr(d - 1)
            return "(%s %s %s)" % (op, a, b)
        if k < 0.60:
            op = r.choice(["-", "!", "~"])
            self.feats.add("un" + op)
            return "(un %s %s)" % (op, self.expr(d - 1))
        if k < 0.74:
            self.feats.add("cond")
            return "(cond %s %s %s)" % (self.expr(d - 1), self.branch(d - 1), self.branch(d - 1))
        if k < 0.86:
            self.feats.add("args")
            return "(call %d %s %s %s)" % (F_ARGS3, self.expr(d - 1), self.expr(d - 1), self.expr(d - 1))
        if k < 0.94:
            self.feats.add("index1")
            return "(bin + (idx %d (bin & %s 3)) 0)" % (V_ARR, self.expr(d - 1))
        if self.multi_index:
            self.feats.add("index2")
            return "(bin + (idx %d (bin & %s 1) (bin %% (bin & %s 3) 3)) 0)" % (V_MAT, self.expr(d - 1), self.expr(d - 1))
        return "(call %d %s)" % (F_ID, self.expr(d - 1))

    def branch(self, d):
        """a branch of ?: - a call, an int literal or a nested ?: (finding C01-ternary-nonint-branch: any other
        long-typed branch yields 0)"""
        r = self.r
        k = r.random()
        if k < 0.55 or d <= 0:
            return tr(self.lab.next(), r.choice([0, 1, 2, 5])) if r.random() < 0.85 else (bad(self.lab.next()) if r.random() < 0.5 else str(r.choice([0, 1, 7])))
        if k < 0.8:
            return "(call %d %s)" % (F_ID, self.expr(d - 1))
        return "(cond %s %s %s)" % (self.expr(d - 1), self.branch(d - 1), self.branch(d - 1))


def random_program(rng, avoid=True, multi_index=False):
    g = TreeGen(rng, avoid=avoid, multi_index=multi_index)
    ctxs = [c for c in CONTEXTS if avoid is False or c not in ()]
    ctx = rng.choice(ctxs)
    e = g.expr(rng.choice([1, 2, 2, 3]))
    if ctx == "elem-store" and avoid:
        e = "(bin + %s 0)" % e          # finding C03-elem-assign-call-twice / C01-elem-assign-ternary: never a bare call / ?:
    if ctx == "print" or ctx == "print2":
        if avoid and "failing-operand" in g.feats:
            ctx = "init"                # finding C01-println-retry: println re-evaluates a failing argument
    return program(ctx, e), ("random", ctx) + tuple(sorted(g.feats))


# ------------------------------------------------------------------------------------------------
# reproducers of the recorded deviations (avoidance off)
# ------------------------------------------------------------------------------------------------
def reproducers():
    """Yields (sexpr, feats) for the shapes of the recorded findings, in every context."""
    for ctx in CONTEXTS:
        for op, a0 in (("and", 0), ("or", 1), ("or", 2), ("or", -1)):
            for b in (0, 1):
                yield program(ctx, "(%s %s %s)" % (op, tr(101, a0), tr(102, b))), ("short-circuit", op, ctx, "traced-rhs")
            yield program(ctx, "(%s %s %s)" % (op, tr(101, a0), bad(102))), ("short-circuit", op, ctx, "failing-rhs")
        if ctx != "ret":
            pre = "(decl 0 0 long %d 0) (decl 0 0 long %d 10)" % (V_D, V_N)
            g = "(and (bin != (v %d) 0) (bin > (bin / (v %d) (v %d)) 1))" % (V_D, V_N, V_D)
            yield program(ctx, g, pre=pre), ("short-circuit", "and", ctx, "guard-div")
            for i in (4, 7, -1):
                pre = "(decl 0 0 long %d %d) (decl 0 0 long %d 4)" % (V_I, i, V_N)
                g = "(and (and (bin >= (v %d) 0) (bin < (v %d) (v %d))) (bin > (bin + (idx %d (v %d)) 0) 11))" % (V_I, V_I, V_N, V_ARR, V_I)
                yield program(ctx, g, pre=pre), ("short-circuit", "and", ctx, "guard-index")
        # multi-dimensional accesses with traced indices
        yield program(ctx, "(bin + (idx %d %s %s) 0)" % (V_MAT, tr(101, 1), tr(102, 2))), ("multi-index", "read2", ctx)
        yield program(ctx, "(bin + (idx %d %s %s %s) 0)" % (V_CUBE, tr(101, 1), tr(102, 0), tr(103, 1))), ("multi-index", "read3", ctx)
        yield program(ctx, "(bin + (idx %d %s 2) 0)" % (V_MAT, tr(101, 1))), ("multi-index", "read2-one-traced", ctx)
        yield program(ctx, "(bin + (idx %d %s) 0)" % (V_ARR, tr(101, 9))), ("index-twice", "out-of-bounds", ctx)
    # stores
    yield ("(P (%s) (%s) ((asg (idx %d %s %s) %s) (print 1 (idx %d 1 0))))" % (
        " ".join(GLOBALS), " ".join(PRELUDE), V_MAT, tr(101, 1), tr(102, 0), tr(107, 7), V_MAT)), ("multi-index", "store2", "stmt")
    yield ("(P (%s) (%s) ((asg (idx %d %s %s) (bin + %s 0)) (print 1 (idx %d 1 0))))" % (
        " ".join(GLOBALS), " ".join(PRELUDE), V_MAT, tr(101, 1), tr(102, 0), tr(107, 7), V_MAT)), ("multi-index", "store2-expr", "stmt")
    yield ("(P (%s) (%s) ((asg (idx %d 0) %s) (print 1 (idx %d 0))))" % (
        " ".join(GLOBALS), " ".join(PRELUDE), V_ARR, tr(101, 5), V_ARR)), ("elem-call-twice", "store1", "stmt")
    yield ("(P (%s) (%s) ((asg (idx %d %s) %s) (print 1 (idx %d 2))))" % (
        " ".join(GLOBALS), " ".join(PRELUDE), V_ARR, tr(101, 2), tr(102, 5), V_ARR)), ("elem-call-twice", "store1-traced-index", "stmt")
    # println re-evaluates a failing argument
    yield program("print", "(bin + %s %s)" % (tr(101, 1), bad(102))), ("println-retry", "print")
    yield program("print2", "(bin + %s %s)" % (tr(101, 1), bad(102))), ("println-retry", "print2")
