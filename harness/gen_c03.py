"""Generator of CbCore programs (S-expressions, grammar in ocaml/lang_driver.ml) aimed at property C03:
expressions whose operands are calls to tracing functions (print a label, return a value) or failing
functions (print a label, then divide by zero), placed in every evaluation context.

The transcript IS the event order: each label is unique inside a program, so the printed labels tell
which operands were evaluated, how often and in which order.

State of the implementation this generator assumes: short-circuit (a51b767), subscript order (2967bbb) and
`a[i] = f()` (df79998) are repaired, so those shapes belong to the main stream; the only shapes kept apart are the
two open findings (typed re-evaluation of subscript lists, println retry).

All randomness comes from the `rng` passed in.  Every program carries a small feature set (`feats`)
used for the coverage histogram and for matching recorded findings.
"""

# function ids of the prelude
F_T, F_BAD, F_ID, F_ARGS3, F_RET, F_T2 = 1, 2, 3, 4, 5, 6
# variable ids
V_K, V_V, V_Z, V_A, V_B, V_C, V_X, V_ARR, V_MAT, V_G, V_I, V_D, V_N, V_CUBE, V_NARROW = range(1, 16)

ARITH = ["+", "-", "*", "/", "%", "&", "|", "^", "<<", ">>"]
CMP = ["<", "<=", ">", ">=", "==", "!="]
BINOPS = ARITH + CMP
CONTEXTS = ["init", "assign", "compound", "cond-if", "cond-while", "cond-for", "index", "index-store", "arg", "ret",
            "print", "print2", "elem-store", "stmt"]

PRELUDE = [
    # long t(long k, long v) { println(k); return v; }
    "(F %d long ((%d long) (%d long)) ((print 1 (v %d)) (ret (v %d))))" % (F_T, V_K, V_V, V_K, V_V),
    # long bad(long k) { println(k); long z = 0; return k / z; }
    "(F %d long ((%d long)) ((print 1 (v %d)) (decl 0 0 long %d 0) (ret (bin / (v %d) (v %d)))))" % (F_BAD, V_K, V_K, V_Z, V_K, V_Z),
    # long id(long a) { return a; }
    "(F %d long ((%d long)) ((ret (v %d))))" % (F_ID, V_A, V_A),
    # long args3(long a, long b, long c) { println(a, b, c); return a; }
    "(F %d long ((%d long) (%d long) (%d long)) ((print 1 (v %d) (v %d) (v %d)) (ret (v %d))))" % (
        F_ARGS3, V_A, V_B, V_C, V_A, V_B, V_C, V_A),
]

GLOBALS = [
    "(G 0 long %d (4) (10 11 12 13))" % V_ARR,             # long[4] arr
    "(G 0 long %d (2 3) (20 21 22 23 24 25))" % V_MAT,     # long[2][3] mat
    "(G 0 long %d (2 2 2) (30 31 32 33 34 35 36 37))" % V_CUBE,
    "(G 0 long %d () (7))" % V_G,
]


def tr(k, v):
    return "(call %d %d %d)" % (F_T, k, v)


def bad(k):
    return "(call %d %d)" % (F_BAD, k)


class Labels:
    """unique operand labels 101, 102, ... (distinct from every value used)"""
    def __init__(self, start=100):
        self.n = start

    def next(self):
        self.n += 1
        return self.n


def program(ctx, e, extra_funcs=(), pre=""):
    """Place expression `e` (which only uses calls, literals and globals) into context `ctx`."""
    funcs = list(PRELUDE) + list(extra_funcs)
    x = V_X
    if ctx == "init":
        body = "(decl 0 0 long %d %s) (print 1 (v %d))" % (x, e, x)
    elif ctx == "assign":
        body = "(decl 0 0 long %d 0) (asg (v %d) %s) (print 1 (v %d))" % (x, x, e, x)
    elif ctx == "compound":
        body = "(decl 0 0 long %d 1) (casg + (v %d) %s) (print 1 (v %d))" % (x, x, e, x)
    elif ctx == "cond-if":
        body = "(if %s ((print 1 1)) ((print 1 0)))" % e
    elif ctx == "cond-while":
        body = "(decl 0 0 long %d 0) (while %s ((asg (v %d) (bin + (v %d) 1)) (if (bin >= (v %d) 2) ((break)) ()))) (print 1 (v %d))" % (x, e, x, x, x, x)
    elif ctx == "cond-for":
        body = "(for ((decl 0 0 long %d 0)) %s ((asg (v %d) (bin + (v %d) 1))) ((print 1 (v %d)) (if (bin >= (v %d) 1) ((break)) ())))" % (x, e, x, x, x, x)
    elif ctx == "index":
        body = "(decl 0 0 long %d (bin + (idx %d (bin & %s 3)) 0)) (print 1 (v %d))" % (x, V_ARR, e, x)
    elif ctx == "index-store":
        body = "(asg (idx %d (bin & %s 3)) 99) (print 1 (idx %d 0) (idx %d 1) (idx %d 2) (idx %d 3))" % (V_ARR, e, V_ARR, V_ARR, V_ARR, V_ARR)
    elif ctx == "arg":
        body = "(decl 0 0 long %d (call %d %s)) (print 1 (v %d))" % (x, F_ID, e, x)
    elif ctx == "ret":
        funcs.append("(F %d long () ((ret %s)))" % (F_RET, e))
        body = "(decl 0 0 long %d (call %d)) (print 1 (v %d))" % (x, F_RET, x)
    elif ctx == "print":
        body = "(print 1 %s)" % e
    elif ctx == "print2":
        body = "(print 1 5 %s 6)" % e
    elif ctx == "elem-store":
        body = "(asg (idx %d 1) %s) (print 1 (idx %d 1))" % (V_ARR, e, V_ARR)
    elif ctx == "stmt":
        body = "(expr %s) (print 1 9)" % e
    else:
        raise ValueError(ctx)
    return "(P (%s) (%s) (%s %s))" % (" ".join(GLOBALS), " ".join(funcs), pre, body)


# ------------------------------------------------------------------------------------------------
# systematic part: every operator x operand-value combinations x every context
# ------------------------------------------------------------------------------------------------
VALS = [0, 1, 2, -1]
PRINT_CTX = ("print", "print2")

# shapes of the recorded deviations (known_findings/C03.json); None = the implementation is expected to agree with Ref.
# Repaired in /repo and therefore part of the main stream now: short-circuit (a51b767), subscript order (2967bbb),
# a[i] = f() (df79998).  Still open: a typed read evaluates its subscript list twice unless it is one in-range
# subscript (TW); println re-evaluates an argument that failed (PR).
SC = None
ET = None
PR = "C03-println-retry"
TW = "C03-index-evaluated-twice"
MI = TW       # multi-dimensional reads with traced subscripts: order is right now, multiplicity is not (typed contexts)
IT = TW


def _shape(ctx, e, can_fail, shape=None):
    """the recorded deviation a case falls under (first match), given the context it is placed in"""
    if shape:
        return shape
    if ctx in PRINT_CTX and can_fail:
        return PR                      # println re-evaluates an argument whose evaluation failed
    return None


def systematic(rng=None):
    """Yields (sexpr, feats, shape): all operators x operand values x contexts with traced / failing operands.
    With `rng` (quick tier) the value pairs of the binary operators are reduced to the four zero / non-zero
    combinations, the non-zero value drawn per operator and context; without it all 16 pairs are used."""
    for ctx in CONTEXTS:
        def case(e, feats, can_fail=False, shape=None, pre=""):
            return program(ctx, e, pre=pre), feats, _shape(ctx, e, can_fail, shape)
        # binary operators: both operands traced, all value combinations
        for op in BINOPS:
            if rng is None:
                pairs = [(a, b) for a in VALS for b in VALS]
            else:
                na, nb = rng.choice([1, 2, -1]), rng.choice([1, 2, -1])
                pairs = [(0, 0), (0, nb), (na, 0), (na, nb)]
            for a, b in pairs:
                    if op in ("<<", ">>") and b < 0:
                        b = 1
                    e = "(bin %s %s %s)" % (op, tr(101, a), tr(102, b))
                    yield case(e, ("bin" + op, ctx, "traced"), can_fail=(op in "/%" and b == 0))
            # a failing operand ends the evaluation: nothing to its right is evaluated
            yield case("(bin %s %s %s)" % (op, bad(101), tr(102, 1)), ("bin" + op, ctx, "left-fails"), True)
            yield case("(bin %s %s %s)" % (op, tr(101, 1), bad(102)), ("bin" + op, ctx, "right-fails"), True)
        for op in ("-", "!", "~"):
            for a in VALS:
                yield case("(un %s %s)" % (op, tr(101, a)), ("un" + op, ctx, "traced"))
            yield case("(un %s %s)" % (op, bad(101)), ("un" + op, ctx, "operand-fails"), True)
        # logical operators, all truth combinations
        for op, decides in (("and", lambda a: a == 0), ("or", lambda a: a != 0)):
            for a in VALS:
                for b in VALS:
                    if decides(a):
                        # the skipped operand is a literal: same transcript with or without short-circuit
                        yield case("(%s %s %d)" % (op, tr(101, a), b), (op, ctx, "lhs-decides-quiet-rhs"))
                        yield case("(%s %s %s)" % (op, tr(101, a), tr(102, b)), (op, ctx, "lhs-decides-traced-rhs"), shape=SC)
                    else:
                        yield case("(%s %s %s)" % (op, tr(101, a), tr(102, b)), (op, ctx, "lhs-open-traced-rhs"))
            a0 = 0 if op == "and" else 1
            yield case("(%s %s %s)" % (op, tr(101, a0), bad(102)), (op, ctx, "lhs-decides-failing-rhs"), True, shape=SC)
            yield case("(%s %s %s)" % (op, tr(101, 1 - a0), bad(102)), (op, ctx, "lhs-open-failing-rhs"), True)
            yield case("(%s %s %s)" % (op, bad(101), tr(102, 1)), (op, ctx, "lhs-fails"), True)
        # conditional: only the selected branch, whatever the other one would do
        for c in VALS:
            yield case("(cond %s %s %s)" % (tr(101, c), tr(102, 5), tr(103, 6)), ("cond", ctx, "traced"))
            yield case("(cond %s %s %s)" % (tr(101, c), tr(102, 5) if c else bad(102), bad(103) if c else tr(103, 6)),
                       ("cond", ctx, "other-branch-fails"))
            yield case("(cond %s %s %s)" % (tr(101, c), bad(102) if c else tr(102, 5), tr(103, 6) if c else bad(103)),
                       ("cond", ctx, "selected-branch-fails"), True)
        yield case("(cond %s %s %s)" % (bad(101), tr(102, 5), tr(103, 6)), ("cond", ctx, "condition-fails"), True)
        # call arguments
        for perm in ((1, 2, 3), (3, 2, 1), (0, 0, 0)):
            e = "(call %d %s %s %s)" % (F_ARGS3, tr(101, perm[0]), tr(102, perm[1]), tr(103, perm[2]))
            yield case(e, ("args", ctx, "traced"))
        for pos in range(3):
            ops = [tr(101 + j, j + 1) if j != pos else bad(101 + j) for j in range(3)]
            yield case("(call %d %s)" % (F_ARGS3, " ".join(ops)), ("args", ctx, "arg%d-fails" % pos), True)
        # one-dimensional index
        for i in (0, 1, 3):
            yield case("(bin + (idx %d %s) 0)" % (V_ARR, tr(101, i)), ("index1", ctx, "traced"))
        yield case("(bin + (idx %d %s) 0)" % (V_ARR, bad(101)), ("index1", ctx, "index-fails"), True)
        for i in (4, 9, -1):
            yield case("(bin + (idx %d %s) 0)" % (V_ARR, tr(101, i)), ("index1", ctx, "out-of-bounds"), True, shape=IT)
        # multi-dimensional accesses with traced indices
        yield case("(bin + (idx %d %s %s) 0)" % (V_MAT, tr(101, 1), tr(102, 2)), ("index2", ctx, "traced"), shape=MI)
        yield case("(bin + (idx %d %s %s %s) 0)" % (V_CUBE, tr(101, 1), tr(102, 0), tr(103, 1)), ("index3", ctx, "traced"), shape=MI)
        yield case("(bin + (idx %d %s 2) 0)" % (V_MAT, tr(101, 1)), ("index2", ctx, "one-traced"), shape=MI)
        yield case("(bin + (idx %d 1 2) 0)" % V_MAT, ("index2", ctx, "literal-indices"))
        # the guards of the property text
        if ctx != "ret":
            for d in (0, 1, 3, -2):
                pre = "(decl 0 0 long %d %d) (decl 0 0 long %d 10)" % (V_D, d, V_N)
                g = "(and (bin != (v %d) 0) (bin > (bin / (v %d) (v %d)) 1))" % (V_D, V_N, V_D)
                yield case(g, ("guard-div", ctx, "d=%d" % d), d == 0, shape=SC if d == 0 else None, pre=pre)
            for i in (0, 2, 3, 4, 7, -1):
                pre = "(decl 0 0 long %d %d) (decl 0 0 long %d 4)" % (V_I, i, V_N)
                g = "(and (and (bin >= (v %d) 0) (bin < (v %d) (v %d))) (bin > (bin + (idx %d (v %d)) 0) 11))" % (V_I, V_I, V_N, V_ARR, V_I)
                yield case(g, ("guard-index", ctx, "i=%d" % i), not 0 <= i < 4, shape=None if 0 <= i < 4 else SC, pre=pre)
    # stores through traced indices
    G, Fs = " ".join(GLOBALS), " ".join(PRELUDE)
    yield ("(P (%s) (%s) ((asg (idx %d %s) (bin + %s 0)) (print 1 (idx %d 2))))" % (G, Fs, V_ARR, tr(101, 2), tr(102, 5), V_ARR)), ("store1", "stmt", "value-then-index"), None
    yield ("(P (%s) (%s) ((asg (idx %d %s) %s) (print 1 (idx %d 2))))" % (G, Fs, V_ARR, tr(101, 2), tr(102, 5), V_ARR)), ("store1", "stmt", "bare-call"), None
    yield ("(P (%s) (%s) ((asg (idx %d 0) %s) (print 1 (idx %d 0))))" % (G, Fs, V_ARR, tr(101, 5), V_ARR)), ("store1", "stmt", "bare-call"), None
    yield ("(P (%s) (%s) ((asg (idx %d %s %s) %s) (print 1 (idx %d 1 0))))" % (G, Fs, V_MAT, tr(101, 1), tr(102, 0), tr(107, 7), V_MAT)), ("store2", "stmt", "bare-call"), None
    yield ("(P (%s) (%s) ((asg (idx %d %s %s) (bin + %s 0)) (print 1 (idx %d 1 0))))" % (G, Fs, V_MAT, tr(101, 1), tr(102, 0), tr(107, 7), V_MAT)), ("store2", "stmt", "expr"), None
    yield ("(P (%s) (%s) ((asg (idx %d %s %s %s) 5) (print 1 (idx %d 1 0 1))))" % (G, Fs, V_CUBE, tr(101, 1), tr(102, 0), tr(103, 1), V_CUBE)), ("store3", "stmt", "literal"), None


# ------------------------------------------------------------------------------------------------
# random expression trees over traced / failing leaves
# ------------------------------------------------------------------------------------------------
class TreeGen:
    def __init__(self, rng, avoid=True, p_bad=0.05, multi_index=False):
        self.r = rng
        self.avoid = avoid
        self.p_bad = p_bad
        self.multi_index = multi_index
        self.lab = Labels()
        self.feats = set()

    def leaf(self, quiet=False):
        r = self.r
        if quiet:
            return str(r.choice([0, 1, 2, 3, -1, 5]))
        k = r.random()
        if k < self.p_bad:
            self.feats.add("failing-operand")
            return bad(self.lab.next())
        if k < 0.80:
            return tr(self.lab.next(), r.choice([0, 0, 1, 1, 2, 3, -1, 5]))
        if k < 0.9:
            return "(v %d)" % V_G
        return str(r.choice([0, 1, 2, 3, -1]))

    def quiet(self, d):
        """an operand that cannot fail and has no effect"""
        r = self.r
        if d <= 0 or r.random() < 0.5:
            return self.leaf(quiet=True) if r.random() < 0.7 else "(v %d)" % V_G
        return "(bin %s %s %s)" % (r.choice(CMP + ["&", "|", "^", "+", "-"]), self.quiet(d - 1), self.quiet(d - 1))

    def expr(self, d):
        r = self.r
        if d <= 0 or r.random() < 0.15:
            return self.leaf()
        k = r.random()
        if k < 0.30:
            op = r.choice(BINOPS)
            self.feats.add("bin" + op)
            b = self.expr(d - 1)
            if op in ("<<", ">>"):
                b = "(bin & %s 7)" % b
            return "(bin %s %s %s)" % (op, self.expr(d - 1), b)
        if k < 0.52:
            op = r.choice(["and", "or"])
            self.feats.add(op)
            a = self.expr(d - 1)
            b = self.quiet(d - 1) if self.r.random() < 0.2 else self.expr(d - 1)   # a51b767: the skipped operand may do anything
            return "(%s %s %s)" % (op, a, b)
        if k < 0.60:
            op = r.choice(["-", "!", "~"])
            self.feats.add("un" + op)
            return "(un %s %s)" % (op, self.expr(d - 1))
        if k < 0.74:
            self.feats.add("cond")
            return "(cond %s %s %s)" % (self.expr(d - 1), self.branch(d - 1), self.branch(d - 1))
        if k < 0.86:
            self.feats.add("args")
            return "(call %d %s %s %s)" % (F_ARGS3, self.expr(d - 1), self.expr(d - 1), self.expr(d - 1))
        if k < 0.94:
            self.feats.add("index1")
            return "(bin + (idx %d (bin & %s 3)) 0)" % (V_ARR, self.expr(d - 1))
        if self.multi_index:
            self.feats.add("index2")
            return "(bin + (idx %d (bin & %s 1) (bin %% (bin & %s 3) 3)) 0)" % (V_MAT, self.expr(d - 1), self.expr(d - 1))
        return "(call %d %s)" % (F_ID, self.expr(d - 1))

    def branch(self, d):
        """a branch of ?: - mostly a call, an int literal or a nested ?: (the shapes that were safe before the repair of
        finding C01-ternary-nonint-branch, repo commit 990fbc8), otherwise any operand tree"""
        r = self.r
        k = r.random()
        if k < 0.45 or d <= 0:
            return tr(self.lab.next(), r.choice([0, 1, 2, 5])) if r.random() < 0.85 else (bad(self.lab.next()) if r.random() < 0.5 else str(r.choice([0, 1, 7])))
        if k < 0.6:
            return "(call %d %s)" % (F_ID, self.expr(d - 1))
        if k < 0.8:
            return self.expr(d - 1)      # (multi-dimensional elements included: the crash of C01-ternary-multidim-segv is gone, 7c216d9)
        return "(cond %s %s %s)" % (self.expr(d - 1), self.branch(d - 1), self.branch(d - 1))


def random_program(rng, avoid=True, multi_index=False):
    g = TreeGen(rng, avoid=avoid, multi_index=multi_index)
    ctx = rng.choice(CONTEXTS)
    e = g.expr(rng.choice([1, 2, 2, 3]))
    if ctx in PRINT_CTX and avoid and (("(call %d " % F_BAD) in e or "(bin / " in e or "(bin % " in e):
        ctx = "init"                    # finding C03-println-retry: println re-evaluates an argument that failed
    return program(ctx, e), ("random", ctx) + tuple(sorted(g.feats))


