"""Generator of CbCall programs (S-expressions, grammar in ocaml/c08_driver.ml, model coq/C08/Kinds.v) for property C08:
calls whose RESULTS, PARAMETERS and LOCALS are of every kind (long int bool string double float quad struct array
reference void), plain functions and methods, leaving through every exit of evaluate_function_call_impl (end of body,
`return` of an int64, re-thrown `return` of a non-integer, runtime error caught by `try`), with

  * statics of the SAME name in caller and callee, read and written before and after every call, at every nesting depth
    (call in a declaration, an assignment, an expression statement, an argument, a println argument, a return, a loop,
    a branch, under try);
  * every activation reusing its callers' names for parameters and locals of every kind, printed after the call;
  * every argument count between required and declared for defaults of every kind, positional echo.

The programs stay inside the name side condition of coq/C08 `dynamic_lookup_refines_lexical` (locals disjoint from
globals / statics, no argument mentions a parameter of the callee or a static, static initialisers are literals,
declarations only at the top level of a body) and away from the recorded findings (known_findings/C08.json):
method names are unique, functions owning statics are not called through pointers, receivers / struct / array /
string arguments are plain variables. All randomness comes from the rng passed in.
"""

LOCALS = list(range(1, 13))        # v1..v12: parameter / local names shared by ALL functions
GLOBALS = [50, 51, 52]
STATICS = [70, 71, 72]             # the same static names in every function
COUNTERS = [30, 31, 32, 33, 34, 35]

INTK = ("long", "int")
VALK = ("long", "int", "bool", "str", "dbl", "flt", "quad", "struct", "arr")     # kinds of variables / parameters
RETK = VALK + ("ref", "void")
RETHROWN = ("str", "dbl", "flt", "quad", "struct", "arr", "ref")


class Fn:
    def __init__(self, fid, ret, meth, params, statics, fam):
        self.fid, self.ret, self.meth, self.params, self.statics, self.fam = fid, ret, meth, params, statics, fam
        self.via = 1 if meth else 0           # 2 / 3: only ever called through a function pointer
        # params: list of (name, kind, default-or-None), WITHOUT the receiver; params[0] is the depth (long)

    @property
    def names(self):
        return [p[0] for p in self.params]


class Opts:
    def __init__(self, **kw):
        self.max_funcs = 6
        self.max_depth = 50
        self.arity_errors = 0.03
        self.__dict__.update(kw)


class Gen:
    def __init__(self, rng, opts=None):
        self.r = rng
        self.o = opts or Opts()
        self.feats = set()
        self.fns = []
        self.globals = []

    # ------------------------------------------------------------------ expressions
    def lit(self):
        return str(self.r.choice([0, 1, 2, 3, 4, 5, 7, 10, 11, -1, -2]))

    def ints(self, env, forbid=()):
        return [x for x, k in env.items() if k in INTK and x not in forbid]

    def pure(self, env, forbid=(), d=2):
        """call-free integer expression over the integer variables of env (never a static when forbid holds them)"""
        r = self.r
        names = self.ints(env, forbid)
        if d <= 0 or not names or r.random() < 0.3:
            if names and r.random() < 0.7:
                return "(v %d)" % r.choice(names)
            return self.lit()
        k = r.random()
        if k < 0.5:
            return "(bin %s %s %s)" % (r.choice("+-"), self.pure(env, forbid, d - 1), self.pure(env, forbid, d - 1))
        if k < 0.65:
            return "(bin * %s %s)" % (self.pure(env, forbid, d - 1), r.choice(["2", "3", "-1"]))
        if k < 0.85:
            return "(bin %% %s %s)" % (self.pure(env, forbid, d - 1), r.choice(["7", "100", "1000"]))
        payload = [x for x, kk in env.items() if kk in ("struct", "arr") and x not in forbid and x != 0]
        if payload:
            return "(get %d)" % r.choice(payload)
        return "(v %d)" % r.choice(names)

    def cmp(self, env, forbid=()):
        return "(bin %s %s %s)" % (self.r.choice(["<", "<=", ">", ">=", "==", "!="]), self.pure(env, forbid, 1), self.pure(env, forbid, 1))

    def value(self, kind, env, forbid=(), only_var=False):
        """call-free expression of `kind` usable as an initialiser / right-hand side / argument"""
        r = self.r
        vs = [x for x, k in env.items() if k == kind and x not in forbid and x != 0]
        if kind in INTK:
            e = self.pure(env, forbid, 2)
            return e if kind == "long" else "(bin %% %s 1000)" % e
        if kind == "bool":
            return "(v %d)" % r.choice(vs) if vs and r.random() < 0.3 else self.cmp(env, forbid)
        if kind in ("struct", "arr"):
            if vs and (only_var or (kind == "struct" and r.random() < 0.5)):      # (an array is never copy-initialised: C07)
                return "(v %d)" % r.choice(vs)
            return None if only_var else self.pure(env, forbid, 1)         # payload: printed as member / element initialisation
        if vs and r.random() < 0.5:
            return "(v %d)" % r.choice(vs)
        return "(lit %s %d)" % (kind, r.randint(0, 99))

    # ------------------------------------------------------------------ calls
    def callable_from(self, caller):
        """callees a body may call plainly: the failing family only from inside the family"""
        ok = [f for f in self.fns if (not f.fam) or (caller is not None and caller.fam)]
        if caller is not None and (caller.ret == "ref" or caller.via >= 2):
            # a function called through a pointer runs under its caller's name (finding C08-static-through-function-pointer):
            # under a reference function its `return v` would be taken for a reference
            ok = [f for f in ok if f.via < 2]
        return ok

    def call(self, ctx, fn=None, forbid=frozenset(), nest=1, bad_arity=False, want=None):
        """-> (sexpr, pre) : a call of `fn` from the body described by ctx; `pre` = statements that must precede it
        (a receiver / struct / array / string variable created for it). Arguments never mention a name in `forbid`
        (parameters of enclosing half-built callees), a parameter of the callee, or a static."""
        r = self.r
        env, caller = ctx["env"], ctx["fn"]
        if fn is None:
            cands = self.callable_from(caller)
            if want is not None:
                cands = [f for f in cands if f.ret in want] or cands
            if not cands:
                raise Skip()
            fn = r.choice(cands)
        pre = []
        fb = set(forbid) | set(fn.names) | set(ctx["statics"])
        req = len([p for p in fn.params if p[2] is None])
        n = r.randint(req, len(fn.params))
        if bad_arity and fn.via >= 2:
            raise Skip()
        if bad_arity:
            n = r.choice([req - 1, len(fn.params) + 1]) if req - 1 >= 1 else len(fn.params) + 1
            self.feats.add("arity-error")
        else:
            self.feats.add("argc:%s" % ("all" if n == len(fn.params) else "defaults"))
        args = []
        if fn.meth:
            if caller is not None and caller.meth and fn.falls:
                recv = 0          # (finding C08-method-end-of-body-clobbers-outer-self: only `self.m()` inside a method)
            else:
                recv = self.var_of("struct", ctx, pre, fb, allow_self=True)
            args.append("(v %d)" % recv)
            self.feats.add("method-call" + ("-on-self" if recv == 0 else ""))
        for j in range(n):
            if j < len(fn.params):
                pname, pk, _ = fn.params[j]
            else:
                pname, pk = None, "long"
            if j == 0:
                d = ctx["depth"]
                a = "(bin - (v %d) 1)" % d if d is not None else str(ctx["lit_depth"]())
            elif pk in ("struct", "arr", "str") and (pk != "str" or r.random() < 0.6):
                a = "(v %d)" % self.var_of(pk, ctx, pre, fb)
            elif pk == "str":
                a = "(lit str %d)" % r.randint(0, 99)
            else:
                d = ctx["depth"]
                can_nest = nest > 0 and ctx["budget"][0] > 0 and (d is None or d not in fb) and not bad_arity
                # (a possibly failing callee never below a call that may be printed: finding C01-println-retry)
                # (a pointer call is never an argument: the pointer variable is looked up in the half-built callee scope only -
                #  the argument side of finding C08-args-in-callee-scope)
                inner = [f for f in self.callable_from(caller) if f.ret == pk and f.via == 0 and (fn.fam or not f.fam)] if can_nest else []
                if inner and r.random() < 0.25:
                    ctx["budget"][0] -= 1
                    a, pre2 = self.call(ctx, r.choice(inner), frozenset(fb), nest - 1)
                    pre += pre2
                    self.feats.add("nested-call-arg:" + pk)
                else:
                    a = self.value(pk, env, fb)
            args.append(a)
            self.feats.add("param:" + pk)
        self.feats.add("ret:" + fn.ret)
        return "(call %d %s)" % (fn.fid, " ".join(args)), pre

    def var_of(self, kind, ctx, pre, forbid, allow_self=False):
        """a variable of `kind` of the running body whose name is not in `forbid`; declared on the spot (into `pre`)
        when there is none"""
        r = self.r
        env = ctx["env"]
        vs = [x for x, k in env.items() if k == kind and x not in forbid and (x != 0 or allow_self)]
        if vs and r.random() < 0.85:
            return r.choice(vs)
        x = self.fresh(ctx, forbid) if ctx.get("can_decl", True) else None
        if x is None:
            if vs:
                return r.choice(vs)
            raise Skip()
        init = self.value(kind, env, forbid) if kind != "str" else "(lit str %d)" % r.randint(0, 99)
        pre.append("(decl 0 %s %d %s)" % (kind, x, init))
        env[x] = kind
        ctx["mine"].append(x)
        return x

    def fresh(self, ctx, forbid=()):
        free = [x for x in LOCALS if x not in ctx["env"] and x not in forbid]
        return self.r.choice(free) if free else None

    # ------------------------------------------------------------------ statements
    def show(self, ctx, k=4):
        """println of the body's own variables (of every kind) and statics"""
        r = self.r
        env = ctx["env"]
        names = [x for x in ctx["mine"] if env.get(x) in VALK]
        r.shuffle(names)
        items = ["(%s (v %d))" % (env[x], x) for x in names[:k]] + ["(%s (v %d))" % (env.get(s, "long"), s) for s in ctx["statics"]]
        if not items:
            items = ["(long %s)" % self.lit()]
        return "(print %s)" % " ".join(items)

    def bump(self, ctx):
        """the running function counts in its statics"""
        if not ctx["statics"]:
            return []
        s = self.r.choice(ctx["statics"])
        sk = ctx["env"].get(s, "long")
        if sk == "bool":
            return ["(asg %d (bin == (v %d) 0))" % (s, s)]
        if sk == "str":
            return ["(asg %d (lit str %d))" % (s, self.r.randint(0, 99))]
        return ["(asg %d (bin + (v %d) %s))" % (s, s, self.r.choice(["1", "1", "2", "10"]))]

    def call_stmt(self, ctx, top):
        save = dict(ctx["env"]), list(ctx["mine"])
        try:
            return self.call_stmt_(ctx, top)
        except Skip:
            ctx["env"].clear(); ctx["env"].update(save[0]); ctx["mine"][:] = save[1]
            return self.bump(ctx)

    def call_stmt_(self, ctx, top):
        """one call in a random context, the caller's statics bumped before and after, its variables printed after"""
        r = self.r
        ctx["can_decl"] = top
        env = ctx["env"]
        out = self.bump(ctx) if r.random() < 0.5 else []
        fam = [f for f in self.fns if f.fam]
        if fam and ctx["fn"] is not None and not ctx["fn"].fam and r.random() < 0.2 or (ctx["fn"] is None and fam and r.random() < 0.25):
            # a failing callee under try: the error exit
            c, pre = self.call(ctx, r.choice(fam))
            out += pre
            tgt = [x for x in ctx["mine"] if env.get(x) == "long" and x != ctx["depth"]]
            if tgt and r.random() < 0.5:
                x = r.choice(tgt)
            elif top:
                x = self.fresh(ctx)
                if x is None:
                    return out
                out.append("(decl 0 long %d 0)" % x)
                env[x] = "long"; ctx["mine"].append(x)
            elif tgt:
                x = r.choice(tgt)
            else:
                return out
            out.append("(try %d %s)" % (x, c))
            self.feats.add("ctx:try")
        else:
            c, pre = self.call(ctx)
            out += pre
            fid = int(c.split()[1])
            fn = [f for f in self.fns if f.fid == fid][0]
            k = fn.ret
            form = r.random()
            if fn.fam:
                form = r.choice([0.1, 0.5, 0.95])          # a possibly failing callee: never inside println / a condition
            if k == "void":
                out.append("(expr %s)" % c); self.feats.add("ctx:stmt")
            elif k == "ref":
                x = self.fresh(ctx) if top else None
                if x is None:
                    out.append("(expr %s)" % c); self.feats.add("ctx:stmt")
                else:
                    out.append("(decl 0 ref %d %s)" % (x, c))
                    out.append("(print (ref (v %d)))" % x)
                    env[x] = "refused"                      # never mentioned again (it aliases a global)
                    self.feats.add("ctx:decl")
            else:
                same = [x for x in ctx["mine"] if env.get(x) == k and x != ctx["depth"]]
                x = self.fresh(ctx) if top else None
                if form < 0.4 and x is not None:
                    out.append("(decl 0 %s %d %s)" % (k, x, c))
                    env[x] = k; ctx["mine"].append(x)
                    self.feats.add("ctx:decl")
                elif form < 0.65 and same and k != "arr":       # (finding C08-array-result-assigned: `a = f();` for an array result)
                    y = r.choice(same)
                    if k in INTK and r.random() < 0.5:
                        out.append("(asg %d (bin + (bin %% (v %d) 1000) %s))" % (y, y, c)); self.feats.add("ctx:arith")
                    else:
                        out.append("(asg %d %s)" % (y, c)); self.feats.add("ctx:assign")
                elif form < 0.8 and k not in ("arr",) and not fn.fam:
                    out.append("(print (%s %s))" % (k, c)); self.feats.add("ctx:println")
                elif form < 0.9 and k in INTK + ("bool",) and not fn.fam:
                    a = self.show(ctx, 2)
                    out.append("(if (bin %s %s %s) (%s) (%s))" % (r.choice(["<", ">", "=="]), c, self.lit(), a, " ".join(self.bump(ctx))))
                    self.feats.add("ctx:condition")
                else:
                    out.append("(expr %s)" % c); self.feats.add("ctx:stmt")
        out += self.bump(ctx)
        out.append(self.show(ctx))
        return out

    def stmts(self, ctx, n, top, depth=1):
        r = self.r
        env = ctx["env"]
        out = []
        for _ in range(n):
            k = r.random()
            if k < 0.18 and top:
                x = self.fresh(ctx)
                if x is None:
                    continue
                kind = r.choice(VALK)
                out.append("(decl 0 %s %d %s)" % (kind, x, self.value(kind, env)))
                env[x] = kind; ctx["mine"].append(x)
                self.feats.add("local:" + kind)
            elif k < 0.34:
                tgts = [x for x in ctx["mine"] if env.get(x) in VALK and x != ctx["depth"] and x not in ctx.get("ro", ())] + ctx["statics"] + ctx["wglobals"]
                if not tgts:
                    continue
                x = r.choice(tgts)
                kind = env.get(x, "long")
                out.append("(asg %d %s)" % (x, self.value(kind, env) if kind not in ("struct", "arr") else self.pure(env, (), 1)))
            elif k < 0.46:
                out.append(self.show(ctx))
            elif k < 0.76 and ctx["budget"][0] > 0 and self.fns:
                ctx["budget"][0] -= 1
                out += self.call_stmt(ctx, top)
            elif k < 0.86 and depth > 0:
                self.feats.add("if")
                a = self.stmts(ctx, r.randint(1, 2), False, depth - 1)
                b = self.stmts(ctx, r.randint(0, 1), False, depth - 1)
                if ctx["fn"] is not None and r.random() < 0.3:
                    a.append(self.ret_stmt(ctx)); self.feats.add("early-return-in-if")
                out.append("(if %s (%s) (%s))" % (self.cmp(env), " ".join(a), " ".join(b)))
            elif k < 0.94 and depth > 0 and ctx["counters"]:
                self.feats.add("loop")
                i = ctx["counters"].pop()
                env[i] = "long"
                saved = ctx["budget"][0]
                if self.branching == 1 and ctx["fn"] is not None:
                    ctx["budget"][0] = 0                      # deep recursion: no call inside a loop
                body = self.stmts(ctx, r.randint(1, 2), False, 0)
                if self.branching == 1 and ctx["fn"] is not None:
                    ctx["budget"][0] = saved
                if ctx["fn"] is not None and r.random() < 0.3:
                    body.append("(if (bin == (v %d) %d) (%s) ())" % (i, r.randint(0, 2), self.ret_stmt(ctx)))
                    self.feats.add("return-in-loop")
                out.append("(for %d %d (%s))" % (i, r.randint(1, 3), " ".join(body)))
                del env[i]
            else:
                out += self.bump(ctx)
        return out

    def ret_stmt(self, ctx, tail=True):
        """`return` of the function's kind: a value, or (tail) a call of a function of the same kind"""
        r = self.r
        fn = ctx["fn"]
        env = ctx["env"]
        k = fn.ret
        if k == "void":
            return "(ret)"
        if k == "ref":
            return "(ret (v %d))" % r.choice(self.globals)
        if tail and ctx["budget"][0] > 0 and r.random() < 0.3:
            cands = [f for f in self.callable_from(fn) if f.ret == k and not f.meth]
            if cands:
                ctx["budget"][0] -= 1
                ctx["can_decl"] = False
                try:
                    c, pre = self.call(ctx, r.choice(cands))
                except Skip:
                    c, pre = None, [1]
                if not pre:
                    self.feats.add("ctx:return")
                    if k in INTK and r.random() < 0.5:
                        return "(ret (bin + %s %s))" % (c, self.pure(env, (), 1) if k == "long" else "1")
                    return "(ret %s)" % c
        if k in ("struct", "arr"):
            vs = [x for x, kk in env.items() if kk == k and x != 0]
            if vs:
                return "(ret (v %d))" % r.choice(vs)
            raise Retry()
        return "(ret %s)" % self.value(k, env)

    # ------------------------------------------------------------------ functions
    def make_fn(self, fid, fam, may_be_method):
        r = self.r
        ret = "long" if fam else r.choice(RETK)
        if ret == "ref" and not self.globals:
            ret = "str"
        meth = may_be_method and not fam and ret != "ref" and r.random() < 0.3     # a method cannot hand back a reference (implementation limit)
        np_ = r.randint(1, 4)
        names = r.sample(LOCALS, np_)
        kinds = ["long"] + [r.choice(VALK) if r.random() < 0.6 else "long" for _ in range(np_ - 1)]
        ndef = min(r.choice([0, 0, 1, 2, 3]), np_ - 1)
        params = []
        for j in range(np_):
            d = None
            if j >= np_ - ndef:
                if kinds[j] in ("struct", "arr"):
                    kinds[j] = r.choice(["long", "str", "dbl"])
                d = r.randint(0, 1) if kinds[j] == "bool" else r.randint(0, 20)
                self.feats.add("default:" + kinds[j])
            params.append((names[j], kinds[j], d))
        statics = r.sample(STATICS, r.choice([0, 1, 1, 2])) if not fam else r.sample(STATICS, r.randint(0, 1))
        fn = Fn(fid, ret, meth, params, statics, fam)
        if not meth and not fam and r.random() < 0.15:
            # called through a function pointer only: integer parameters, every argument supplied, an integer result, no static
            # (findings C08-static-through-function-pointer, C08-pointer-call-*), never under try
            fn.via = r.choice([2, 3])
            fn.ret = r.choice(["long", "int", "bool", "str", "void"])
            fn.params = [(n, "long" if j == 0 else r.choice(INTK), None) for j, (n, _, _) in enumerate(params)]
            fn.statics = []
            self.feats.add("via-pointer:%d" % fn.via)
        # may the body run to its end (exit XEnd)?
        fn.falls = (fn.ret == "void" and r.random() < 0.6) or (fn.ret in INTK and not fam and fn.via < 2 and r.random() < 0.12)
        return fn

    def fn_text(self, fn):
        r = self.r
        env = {g: "long" for g in self.globals}
        if fn.meth:
            env[0] = "struct"
        for n, k, _ in fn.params:
            env[n] = k
        d = fn.params[0][0]
        ctx = {"env": env, "fn": fn, "depth": d, "statics": list(fn.statics), "mine": [n for n, _, _ in fn.params],
               "ro": [n for n, k, _ in fn.params if k == "arr"],          # array parameters alias the caller's array (C07): read only
               "wglobals": list(self.globals), "budget": [self.branching], "counters": r.sample(COUNTERS, 3)}
        body = []
        for s in fn.statics:
            sk = r.choice(["long", "long", "long", "int", "bool", "str"])
            init = {"bool": "(lit bool %d)" % r.randint(0, 1), "str": "(lit str %d)" % r.randint(0, 99)}.get(sk) or self.lit()
            body.append("(decl 1 %s %d %s)" % (sk, s, init))
            env[s] = sk
            self.feats.add("static:" + sk)
        self.feats.add("statics=%d" % len(fn.statics))
        body += self.bump(ctx)
        if fn.ret in ("struct", "arr"):
            # the value handed back is a variable of that kind: make sure there is one
            pre = []
            ctx["can_decl"] = True
            self.var_of(fn.ret, ctx, pre, ())
            body += pre
        echo = "(print %s)" % " ".join(["(%s (v %d))" % (k, n) for n, k, _ in fn.params] + (["(long (get 0))"] if fn.meth else []))
        base = [echo, self.ret_stmt(ctx, tail=False)]
        body.append("(if (bin <= (v %d) 0) (%s) ())" % (d, " ".join(base)))
        body.append(echo)
        if fn.fam:
            # fails with a division by zero when its depth is odd, after having counted and (maybe) called on
            z = self.fresh(ctx)
            if z is None:
                raise Retry()
            body.append("(decl 0 long %d 0)" % z); env[z] = "long"; ctx["mine"].append(z)
            body += self.stmts(ctx, r.randint(0, 2), True)
            body.append("(if (bin == (bin %% (v %d) 2) 1) ((ret (bin / (v %d) (bin - (v %d) (v %d))))) ())" % (d, d, z, z))
            self.feats.add("failing-callee")
        body += self.stmts(ctx, r.randint(2, 5), True)
        if fn.falls:
            self.feats.add("exit:end-of-body" + ("" if fn.ret == "void" else "-nonvoid"))
        else:
            body.append(self.ret_stmt(ctx))
        ps = " ".join("(%d %s%s)" % (n, k, "" if dv is None else " %d" % dv) for n, k, dv in ([(0, "struct", None)] if fn.meth else []) + fn.params)
        return "(F %d %s %d (%s) (%s))" % (fn.fid, fn.ret, fn.via, ps, " ".join(body))

    def program(self):
        r, o = self.r, self.o
        self.globals = r.sample(GLOBALS, r.randint(0, 3))
        self.branching = 1 if r.random() < 0.55 else 2
        nf = r.randint(2, o.max_funcs)
        nfam = r.choice([0, 1, 1, 2]) if nf > 2 else 0
        self.fns = [self.make_fn(i + 1, i >= nf - nfam, True) for i in range(nf)]
        texts = [self.fn_text(fn) for fn in self.fns]
        env = {g: "long" for g in self.globals}
        depth = r.choice([0, 1, 2, 3, 5, 8, 13, 21, 34, o.max_depth]) if self.branching == 1 else r.randint(0, 4)
        ctx = {"env": env, "fn": None, "depth": None, "statics": [], "mine": [], "wglobals": list(self.globals),
               "budget": [r.randint(3, 7)], "counters": r.sample(COUNTERS, 3),
               "lit_depth": (lambda: r.choice([depth, depth, max(0, depth - 1), r.randint(0, 3)]))}
        main = []
        for kind in r.sample(VALK, r.randint(2, 5)):
            x = self.fresh(ctx)
            main.append("(decl 0 %s %d %s)" % (kind, x, self.value(kind, env) if kind != "str" else "(lit str %d)" % r.randint(0, 99)))
            env[x] = kind; ctx["mine"].append(x)
        main += self.stmts(ctx, r.randint(4, 8), True)
        while ctx["budget"][0] > 0 and r.random() < 0.7:
            ctx["budget"][0] -= 1
            main += self.call_stmt(ctx, True)
        main.append(self.show(ctx, 6))
        if self.globals:
            main.append("(print %s)" % " ".join("(long (v %d))" % g for g in self.globals))
        if r.random() < o.arity_errors:
            ctx["can_decl"] = True
            try:
                c, pre = self.call(ctx, r.choice([f for f in self.fns if not f.fam] or self.fns), bad_arity=True)
                main += pre
                main.append("(expr %s)" % c)
                main.append("(print (long 12345))")
            except Skip:
                pass
        globs = " ".join("(g %d %s)" % (g, self.lit().replace("-", "")) for g in self.globals)
        return "(K (%s) (%s) (%s))" % (globs, " ".join(texts), " ".join(main))


class Retry(Exception):
    pass


class Skip(Exception):
    """this call cannot be built here (no variable of the needed kind and no room to declare one)"""


def gen_program(rng, opts=None):
    """-> (sexpr, features)"""
    for _ in range(50):
        g = Gen(rng, opts)
        try:
            return g.program(), g.feats
        except Retry:
            continue
    raise RuntimeError("gen_c08k: no program after 50 attempts")


# -------------------------------------------------------------------------------------------------
# directed programs: one blind spot each, all kinds in turn
# -------------------------------------------------------------------------------------------------
_LITK = {"long": "5", "int": "6", "bool": "(bin < 1 2)", "str": "(lit str 7)", "dbl": "(lit dbl 8)", "flt": "(lit flt 9)",
         "quad": "(lit quad 10)"}


def _ret_body(kind, payload, glob=50):
    """statements that hand back a value of `kind` carrying `payload` (an integer expression where the kind allows)"""
    if kind in INTK:
        return ["(ret %s)" % payload]
    if kind == "bool":
        return ["(ret (bin > %s 0))" % payload]
    if kind in ("struct", "arr"):
        return ["(decl 0 %s 9 %s)" % (kind, payload), "(ret (v 9))"]
    if kind == "ref":
        return ["(ret (v %d))" % glob]
    if kind == "void":
        return []
    return ["(ret (lit %s %d))" % (kind, 3)]


def directed(rng, k):
    """-> (sexpr, tag)"""
    r = rng
    which = k % 6
    kind = RETK[(k // 6) % len(RETK)]
    if which == 0:
        # the caller's static (same name as the callee's) around a call of every kind, at nesting depth 1..4, with the
        # call in every statement context
        depth = r.randint(1, 4)
        fs = []
        # f1: the callee of `kind`; f2..: long wrappers, each owning v70 too and calling the next one
        fs.append("(F 1 %s 0 ((1 long)) ((decl 1 long 70 %d) (asg 70 (bin + (v 70) (v 1))) %s))" % (
            kind, r.randint(100, 900), " ".join(_ret_body(kind, "(v 70)"))))
        ctxs = ["decl", "stmt", "println"] if kind not in ("void", "ref", "arr") else (["stmt"] if kind == "void" else ["decl", "stmt"])
        cx = r.choice(ctxs)
        callee = "(call 1 (v 1))"
        use = {"decl": "(decl 0 %s 5 %s)" % (kind, callee), "stmt": "(expr %s)" % callee, "println": "(print (%s %s))" % (kind, callee)}[cx]
        after = "(print (%s (v 5)) (long (v 70)))" % kind if cx == "decl" and kind != "ref" else ("(print (ref (v 5)) (long (v 70)))" if cx == "decl" else "(print (long (v 70)))")
        fs.append("(F 2 long 0 ((1 long)) ((decl 1 long 70 %d) (asg 70 (bin + (v 70) 1)) %s (asg 70 (bin + (v 70) 1)) %s (ret (v 70))))" % (
            r.randint(0, 50), use, after))
        for i in range(3, depth + 2):
            fs.append("(F %d long 0 ((1 long)) ((decl 1 long 70 %d) (asg 70 (bin + (v 70) 1)) (decl 0 long 2 (call %d (v 1))) "
                      "(asg 70 (bin + (v 70) 1)) (print (long (v 2)) (long (v 70))) (ret (bin + (v 70) (bin %% (v 2) 1000)))))" % (i, r.randint(0, 50) * i, i - 1))
        top = depth + 1
        main = " ".join("(print (long (call %d %d)))" % (top, r.randint(1, 4)) for _ in range(r.randint(2, 4)))
        return "(K ((g 50 %d)) (%s) (%s))" % (r.randint(1, 9), " ".join(fs), main), "static-after-call:%s:%s" % (kind, cx)
    if which == 1:
        # locals of every kind named alike in caller and callee: the caller's survive the call (all exits)
        if kind in ("ref", "void"):
            kind2 = r.choice(VALK)
        else:
            kind2 = kind
        res = RETK[(k // 6 + r.randint(0, 10)) % len(RETK)]
        init_callee = _LITK.get(kind2, "77")
        init_caller = {"long": "1", "int": "2", "bool": "(bin > 1 2)", "str": "(lit str 40)", "dbl": "(lit dbl 41)", "flt": "(lit flt 42)",
                       "quad": "(lit quad 43)"}.get(kind2, "44")
        f1 = "(F 1 %s 0 ((1 long)) ((decl 0 %s 2 %s) (print (%s (v 2)) (long (v 1))) %s))" % (
            res, kind2, init_callee, kind2, " ".join(_ret_body(res, "(bin + (v 1) 1)")))
        use = "(expr (call 1 (bin + (v 1) 10)))" if res in ("void",) else "(decl 0 %s 3 (call 1 (bin + (v 1) 10)))" % res
        f2 = "(F 2 long 0 ((1 long)) ((decl 0 %s 2 %s) %s (print (%s (v 2)) (long (v 1))) (ret (v 1))))" % (kind2, init_caller, use, kind2)
        main = "(decl 0 %s 2 %s) (decl 0 long 1 99) (print (long (call 2 %d))) (print (%s (v 2)) (long (v 1)))" % (kind2, init_caller, r.randint(0, 9), kind2)
        return "(K ((g 50 3)) (%s %s) (%s))" % (f1, f2, main), "locals-survive:%s:ret-%s" % (kind2, res)
    if which == 2:
        # positional echo with parameters of every kind, every argument count from required to declared
        n = r.randint(2, 5)
        kinds = [r.choice(("long", "int", "bool", "str", "dbl", "flt", "quad")) for _ in range(n)]
        nd = r.randint(0, n - 1)
        names = r.sample(range(1, 9), n)
        defs = {j: (r.randint(0, 1) if kinds[j] == "bool" else r.randint(0, 30)) for j in range(n - nd, n)}
        ps = " ".join("(%d %s%s)" % (names[j], kinds[j], (" %d" % defs[j]) if j in defs else "") for j in range(n))
        f1 = "(F 1 %s 0 (%s) ((print %s) %s))" % (kind, ps, " ".join("(%s (v %d))" % (kinds[j], names[j]) for j in range(n)),
                                                " ".join(_ret_body(kind, "3")))
        main = []
        def arg(kd):
            if kd in INTK:
                return str(r.randint(-9, 9))
            if kd == "bool":
                return "(bin < %d %d)" % (r.randint(0, 3), r.randint(0, 3))
            return "(lit %s %d)" % (kd, r.randint(0, 99))
        for cnt in range(n - nd, n + 1):
            if cnt == 0:
                continue
            main.append("(expr (call 1 %s))" % " ".join(arg(kinds[j]) for j in range(cnt)))
        bad = r.choice([n - nd - 1, n + 1])
        if bad >= 1 and r.random() < 0.5:
            main.append("(expr (call 1 %s))" % " ".join(arg(kinds[j] if j < n else "long") for j in range(bad)))
            main.append("(print (long 777))")
        return "(K ((g 50 3)) (%s) (%s))" % (f1, " ".join(main)), "positional-kinds:ret-%s" % kind
    if which == 3:
        # methods: a static in a method, the method calling a function of `kind` and another method on self;
        # the caller's static after the method call
        f1 = "(F 1 %s 0 ((1 long)) ((decl 1 long 70 %d) (asg 70 (bin + (v 70) (v 1))) %s))" % (kind, r.randint(100, 900), " ".join(_ret_body(kind, "(v 70)")))
        use = "(expr (call 1 (v 1)))" if kind == "void" else "(decl 0 %s 5 (call 1 (v 1)))" % kind
        m2 = "(F 2 long 1 ((0 struct) (1 long)) ((decl 1 long 70 %d) (asg 70 (bin + (v 70) 1)) %s (asg 70 (bin + (v 70) 1)) (print (long (v 70)) (long (get 0))) (ret (bin + (v 70) (get 0)))))" % (r.randint(0, 40), use)
        m3 = "(F 3 long 1 ((0 struct) (1 long)) ((decl 1 long 70 %d) (asg 70 (bin + (v 70) 1)) (decl 0 long 2 (call 2 (v 0) (v 1))) (asg 70 (bin + (v 70) 1)) (print (long (v 2)) (long (v 70))) (ret (v 70))))" % r.randint(300, 400)
        f4 = "(F 4 long 0 ((1 long)) ((decl 1 long 70 %d) (decl 0 struct 3 (v 1)) (asg 70 (bin + (v 70) 1)) (decl 0 long 2 (call %d (v 3) (v 1))) (asg 70 (bin + (v 70) 1)) (print (long (v 2)) (long (v 70)) (struct (v 3))) (ret (v 70))))" % (r.randint(500, 600), r.choice([2, 3]))
        main = " ".join("(print (long (call 4 %d)))" % r.randint(1, 5) for _ in range(r.randint(2, 3)))
        return "(K ((g 50 4)) (%s %s %s %s) (%s))" % (f1, m2, m3, f4, main), "method-statics:%s" % kind
    if which == 4:
        # the error exit: a callee fails (division by zero) one..three activations below a `try`; the catcher's statics and
        # locals afterwards, then the same callee succeeding
        depth = r.randint(1, 3)
        fs = ["(F 1 long 0 ((1 long)) ((decl 1 long 70 %d) (asg 70 (bin + (v 70) 1)) (decl 0 long 2 0) (print (long (v 70))) (ret (bin / 100 (v 1)))))" % r.randint(100, 200)]
        for i in range(2, depth + 1):
            fs.append("(F %d long 0 ((1 long)) ((decl 1 long 70 %d) (asg 70 (bin + (v 70) 1)) (decl 0 long 2 (call %d (v 1))) (asg 70 (bin + (v 70) 1)) (ret (bin + (v 2) (v 70)))))" % (i, r.randint(0, 9) * 100, i - 1))
        top = depth + 1
        kd = kind if kind in VALK else "long"
        fs.append("(F %d long 0 ((1 long)) ((decl 1 long 70 %d) (asg 70 (bin + (v 70) 1)) (decl 0 long 2 5) (decl 0 %s 3 %s) (try 2 (call %d (v 1))) "
                  "(asg 70 (bin + (v 70) 1)) (print (long (v 2)) (long (v 70)) (%s (v 3))) (ret (v 70))))" % (
                      top, r.randint(0, 50), kd, _LITK.get(kd, "4"), depth, kd))
        main = " ".join("(print (long (call %d %d)))" % (top, r.choice([0, 0, 1, 2, 5])) for _ in range(r.randint(2, 5)))
        return "(K ((g 50 1)) (%s) (%s))" % (" ".join(fs), main), "error-exit-under-try:depth-%d" % depth
    # which == 5: the value given to `return` arrives unchanged, through two functions of the kind, in every context
    payload = r.randint(0, 99)
    if kind in ("void",):
        kind = "str"
    if kind == "ref":
        f1 = "(F 1 ref 0 ((1 long)) ((asg 50 (bin + (v 50) (v 1))) (ret (v 50))))"
        main = "(decl 0 ref 2 (call 1 %d)) (print (ref (v 2)) (long (v 50)))" % payload
        return "(K ((g 50 %d)) (%s) (%s))" % (r.randint(0, 9), f1, main), "return-value:ref"
    val = {"long": str(payload), "int": str(payload), "bool": "(bin < %d 50)" % payload}.get(kind, "(lit %s %d)" % (kind, payload))
    if kind in ("struct", "arr"):
        f1 = "(F 1 %s 0 ((1 long)) ((decl 0 %s 2 (bin + (v 1) %d)) (ret (v 2))))" % (kind, kind, payload)
    else:
        f1 = "(F 1 %s 0 ((1 long)) ((ret %s)))" % (kind, val)
    f2 = "(F 2 %s 0 ((1 long)) ((decl 0 %s 2 (call 1 (v 1))) (ret (v 2))))" % (kind, kind)
    f3 = "(F 3 %s 0 ((1 long)) ((ret (call 2 (v 1)))))" % kind
    main = "(decl 0 %s 4 (call 3 %d)) (print (%s (v 4)))" % (kind, r.randint(0, 9), kind)
    if kind != "arr":
        main += " (print (%s (call 3 1)))" % kind
    return "(K () (%s %s %s) (%s))" % (f1, f2, f3, main), "return-value:%s" % kind


# -------------------------------------------------------------------------------------------------
# shrinking a failing CbCall program: delete statements, then whole functions, then simplify expressions
# -------------------------------------------------------------------------------------------------
def _parse(s):
    toks = s.replace("(", " ( ").replace(")", " ) ").split()
    pos = 0

    def item():
        nonlocal pos
        t = toks[pos]; pos += 1
        if t == "(":
            l = []
            while toks[pos] != ")":
                l.append(item())
            pos += 1
            return l
        return t
    return item()


def _show(x):
    return x if isinstance(x, str) else "(" + " ".join(_show(y) for y in x) + ")"


def _lists(node, acc):
    if not isinstance(node, list) or not node:
        return
    if node[0] == "K":
        for f in node[2]:
            acc.append(f[5])
            for s in f[5]:
                _lists(s, acc)
        acc.append(node[3])
        for s in node[3]:
            _lists(s, acc)
    elif node[0] == "if":
        acc.append(node[2]); acc.append(node[3])
        for s in node[2] + node[3]:
            _lists(s, acc)
    elif node[0] == "for":
        acc.append(node[3])
        for s in node[3]:
            _lists(s, acc)


def _sites(node, path, acc):
    if isinstance(node, list):
        if node and node[0] in ("bin", "call"):
            acc.append(list(path))
        for i, c in enumerate(node):
            _sites(c, path + [i], acc)


def shrink(sexpr, still_bad, budget=150):
    import copy
    cur = _parse(sexpr)
    steps = [0]

    def ok(cand):
        steps[0] += 1
        try:
            return still_bad(_show(cand))
        except Exception:
            return False
    changed = True
    while changed and steps[0] < budget:
        changed = False
        # whole functions first (from the last one), then statements
        for k in range(len(cur[2]) - 1, -1, -1):
            cand = copy.deepcopy(cur)
            del cand[2][k]
            if ok(cand):
                cur = cand; changed = True
                break
            if steps[0] >= budget:
                break
        if changed:
            continue
        lists = []
        _lists(cur, lists)
        for li in range(len(lists)):
            for k in range(len(lists[li]) - 1, -1, -1):
                cand = copy.deepcopy(cur)
                l2 = []
                _lists(cand, l2)
                if isinstance(l2[li][k], list) and l2[li][k] and l2[li][k][0] == "ret":
                    continue                                   # keep every function well-formed
                del l2[li][k]
                if ok(cand):
                    cur = cand; changed = True
                    break
                if steps[0] >= budget:
                    break
            if changed or steps[0] >= budget:
                break
    changed = True
    while changed and steps[0] < budget:
        changed = False
        sites = []
        _sites(cur, [], sites)
        for path in sites:
            node = cur
            for i in path:
                node = node[i]
            if node[0] != "bin":
                continue
            for repl in [node[2], node[3], "1"]:
                cand = copy.deepcopy(cur)
                par = cand
                for i in path[:-1]:
                    par = par[i]
                par[path[-1]] = copy.deepcopy(repl)
                if ok(cand):
                    cur = cand; changed = True
                    break
                if steps[0] >= budget:
                    break
            if changed or steps[0] >= budget:
                break
    return _show(cur)
