"""C04 - generator of one-store CbCore programs (S-expressions, grammar in ocaml/lang_driver.ml).

matrix(rng): every (integer type) x (store path) x (boundary value kind) combination, one checked
store per program. The stored cell is read back and printed FIRST, then its neighbours (which must
stay 0), so a kept / wrapped / clamped value is visible in stdout and a rejected store in the exit
class. Each case carries the query that asks the Mech model (bin/c04_model mech) what today's code
does with exactly that store.
"""
import gen_core

TYPES = ["tiny", "short", "int", "long", "char", "utiny", "ushort", "uint", "ulong"]   # `unsigned char` is rejected by the parser (probed separately)
RANGES = {t: gen_core.RANGES[t] for t in TYPES}
I64 = (-2**63, 2**63 - 1)

# store paths; the tag after ':' is the way the value reaches the store
PATHS = [
    "decl:lit", "decl:var", "decl:var-tight", "decl:var-flip", "decl:expr", "for-init:lit",
    "decl:tern-lit", "decl:tern-else", "decl:tern-var", "decl:call", "decl:elem1", "decl:const", "decl:block",
    "assign:lit", "assign:var", "assign:var-tight", "assign:var-flip", "assign:expr",
    "assign:tern-lit", "assign:tern-else", "assign:tern-var", "assign:tern-expr", "assign:tern-call", "assign:tern-nested",
    "assign:tern-tinyvar", "assign:tern-bool",
    "assign:call", "assign:elem1", "assign:uninit", "assign:global", "assign:param", "assign:outer", "assign:static",
    "compound:add", "compound:sub", "compound:mul", "compound:or", "compound:shl", "compound:div",
    "compound:global", "compound:static",
    "incdec-var:pre", "incdec-var:post", "incdec-var:for-update", "incdec-var:global", "incdec-var:param", "incdec-var:static",
    "incdec-elem:pre", "incdec-elem:post",
    "arg:lit", "arg:var", "arg:var-tight", "arg:var-flip", "arg:default", "arg:expr", "arg:call", "arg:tern", "arg:second",
    "return:var", "return:var-tight", "return:var-flip", "return:expr", "return:lit", "return:tern", "return:call", "return:nested", "return:direct",
    "elem1:lit", "elem1:var", "elem1:var-tight", "elem1:var-flip", "elem1:tern", "elem1:call", "elem1:global", "elem1:var-index", "elem1-compound:add", "elem1-compound:var-index",
    "elemN:lit2", "elemN:var2", "elemN:var2-tight", "elemN:lit3", "elemN:tern", "elemN:call",
    "literal1:lit", "literal1:var", "literalN:lit",
    "global:scalar", "global:array", "global:const",
    "static:lit", "static:expr",
    "from-elemN:decl", "from-elemN:assign", "from-elemN:return",
    # direct stores into struct members (CbCore plain structs; range checked since fix a3f0b3d)
    "member:lit", "member:var", "member:var-tight", "member:var-flip", "member:tern", "member:call", "member:compound", "member:incdec-pre", "member:incdec-post",
    "member:elem1", "member:elemN",
]
# matrix path -> path of the Mech model (coq/C04/Model.v [path])
MECH_PATH = {
    "decl": "decl", "for-init": "decl", "assign": "assign", "compound": "compound", "incdec-var": "incdec-var",
    "incdec-elem": "incdec-elem1", "arg": "arg", "return": "return", "elem1": "elem1", "elem1-compound": "elem1-compound",
    "elemN": "elemN", "literal1": "lit1", "literalN": "litN", "global:scalar": "global-scalar", "global:array": "global-arr",
    "static": "static", "from-elemN:decl": "decl", "from-elemN:assign": "assign-from-elemN", "from-elemN:return": "return-from-elemN",
    # the hint is the type core/type_inference.cpp infers for the selected branch of `x = c ? a : b;`
    "assign:tern-lit": "assign-hint:int", "assign:tern-else": "assign-hint:int", "assign:tern-var": "assign-hint:long",
    "assign:tern-expr": "assign-hint:long", "assign:tern-call": "assign-hint:long", "assign:tern-nested": "assign-hint:int",
    "assign:tern-tinyvar": "assign-hint:tiny", "assign:tern-bool": "assign-hint:bool",
    "assign:call": "assign-call", "assign:static": "static-assign", "compound:static": "static-assign",
    "incdec-var:static": "static-assign", "decl:call": "decl-call", "elem1:global": "elem1-global", "global:const": "const-global",
    "member": "member",
}
# the same program with the declared type written through a typedef alias (signed types only: `typedef unsigned tiny U8;` and
# `unsigned T8 x;` are parse errors): declaration.cpp has its own branch for typedef'd declarations
TYPEDEF_ALIAS = {"tiny": "T8", "short": "S16", "int": "I32", "long": "L64", "char": "C8"}
TD_MECH_PATH = {"decl:tern-lit": "decl-typedef-ternary", "decl:tern-else": "decl-typedef-ternary", "decl:tern-var": "decl-typedef-ternary",
                "decl:lit": "decl-typedef", "decl:var": "decl-typedef", "decl:var-tight": "decl-typedef", "decl:var-flip": "decl-typedef", "decl:expr": "decl-typedef", "decl:call": "decl-typedef",
                "decl:elem1": "decl-typedef", "decl:const": "decl-typedef", "decl:block": "decl-typedef", "for-init:lit": "decl-typedef",
                "from-elemN:decl": "decl-typedef",
                # a typedef'd array declaration with a literal goes through handle_array_literal_initialization ->
                # CommonOperations::assign_array_literal_to_variable (clamp only), not through the checked ArrayManager loops
                "literal1:lit": "arrlit-assign1", "literal1:var": "arrlit-assign1", "literalN:lit": "arrlit-assignN"}
TYPE_TEXT = {"tiny": "tiny", "short": "short", "int": "int", "long": "long", "char": "char", "utiny": "unsigned tiny",
             "ushort": "unsigned short", "uint": "unsigned int", "ulong": "unsigned long"}

KINDS = ["min-1", "min", "min+1", "-1", "0", "1", "max-1", "max", "max+1", "rand-in", "rand-above", "rand-below", "ptr-like"]


def values_for(t, rng):
    lo, hi = RANGES[t]
    vs = {"min-1": lo - 1, "min": lo, "min+1": lo + 1, "-1": -1, "0": 0, "1": 1,
          "max-1": hi - 1, "max": hi, "max+1": hi + 1,
          "rand-in": rng.randint(lo, hi)}
    if hi < I64[1]:
        vs["rand-above"] = rng.randint(hi + 1, min(I64[1], (hi + 1) * rng.choice([2, 256, 65536, 2**20])))
    else:
        vs["rand-above"] = None
    # a value consume_numeric_typed_value (member_helpers.cpp) may take for an address: 2^32 .. 2^47-1 (both ends and the inside)
    vs["ptr-like"] = rng.choice([2**32, 2**47 - 1, rng.randint(2**32, 2**47 - 1)])
    if lo > I64[0]:
        vs["rand-below"] = rng.randint(max(I64[0], (lo - 1) * rng.choice([2, 256, 65536, 2**20]) - 5), lo - 1)
    else:
        vs["rand-below"] = None
    return vs


def in64(v):
    return I64[0] <= v <= I64[1]


def _readback(x):
    # `+ 0` so that char-typed cells are printed as numbers by println on both sides
    return "(print 1 (bin + (v %d) 0))" % x


def _readback_elem(a, idx):
    # the element is the RIGHT operand: a negative multi-dimensional or char element as the left operand
    # of a binary operator was taken for a pointer and crashed the interpreter (repaired by 7c216d9; kept, harmless)
    return "(print 1 (bin + 0 (idx %d %s)))" % (a, " ".join(map(str, idx)))


def split_sum(v, rng):
    """a + b = v with both operands and the sum inside int64"""
    for _ in range(20):
        b = rng.choice([0, 1, -1, 2, -2, 7, -7, 100, -100])
        a = v - b
        if in64(a):
            return a, b
    return v, 0


def compound_operands(how, t, v, rng, nonneg_start=False):
    """start value (inside the type's range), operator, operand so that start op operand = v exactly."""
    lo, hi = RANGES[t]
    if nonneg_start:
        lo = max(lo, 0)
    cands = [1, 2, 3, 10]
    rng.shuffle(cands)
    if how == "add":
        for d in cands:
            for start, op, operand in ((v - d, "+", d), (v + d, "+", -d)):
                if lo <= start <= hi:
                    return start, op, operand
        return None
    if how == "sub":
        for d in cands:
            for start, op, operand in ((v + d, "-", d), (v - d, "-", -d)):
                if lo <= start <= hi:
                    return start, op, operand
        return None
    if how == "mul":
        for d in (2, 3, -1, -2, 1):
            if v % d == 0 and lo <= v // d <= hi:
                return v // d, "*", d
        return None
    raise ValueError(how)


def incdec_start(t, v, rng):
    """start value inside the range from which one ++ / -- reaches v"""
    lo, hi = RANGES[t]
    opts = []
    if lo <= v - 1 <= hi:
        opts.append((v - 1, 1))
    if lo <= v + 1 <= hi:
        opts.append((v + 1, 0))
    if not opts:
        return None
    return rng.choice(opts)


IDENT = "(F 2 long ((7 long)) ((ret (v 7))))"          # long f2(long v7) { return v7; }


def tight_carrier(t, v, rng):
    """one of the two narrowest integer types other than `t` (and char) whose range holds v"""
    c = sorted((x for x in TYPES if x not in (t, "char") and RANGES[x][0] <= v <= RANGES[x][1]), key=lambda x: RANGES[x][1] - RANGES[x][0])
    return rng.choice(c[:2]) if c else None


def build(path, t, v, rng):
    """-> (sexpr, mech_query, extra) for one program storing `v` into a `t` cell along `path`:
    the program prints the target cell first and then len(extra) neighbour cells whose values must be
    `extra`; mech_query is the line for `c04_model mech`. None when the combination cannot be
    expressed (value not representable in int64 / start value would be outside the type)."""
    p, how = path.split(":")
    if not in64(v):
        # a literal outside int64 cannot be written as a Cb token and cannot be the result of
        # well-formed 64-bit arithmetic (Ref: Undef)
        return None
    G, F, M = [], [], []
    W = "long"       # carrier type for the value on its way to the store
    if how.endswith("-tight"):
        # the value arrives in a variable of the NARROWEST other type that holds it (unsigned ones included) instead of a long
        W = tight_carrier(t, v, rng)
        if W is None:
            return None
        how = how[:-6]
    elif how.endswith("-flip"):
        # ... of the SAME base type with the other signedness (same TypeInfo in the interpreter, only is_unsigned differs)
        W = ("u" + t) if not t.startswith("u") else t[1:]
        if W not in RANGES or not (RANGES[W][0] <= v <= RANGES[W][1]):
            return None
        how = how[:-5]
    extra = []
    mpath = MECH_PATH.get(path) or MECH_PATH[p]
    query = "store %s %s %d" % (mpath, t, v)
    lo, hi = RANGES[t]
    COND1 = "(decl 0 0 long 4 1)"      # long v4 = 1;  the condition of the ?: cells (0 for the else variants)
    COND0 = "(decl 0 0 long 4 0)"
    if p in ("decl", "for-init"):
        if p == "for-init":
            M = ["(for ((decl 0 0 %s 1 %d)) 1 ((asg (v 1) (bin + (v 1) 1))) ((print 1 (bin + (v 1) 0)) (break)))" % (t, v)]
        else:
            if how == "lit":
                M = ["(decl 0 0 %s 1 %d)" % (t, v)]
            elif how == "var":
                M = ["(decl 0 0 %s 2 %d)" % (W, v), "(decl 0 0 %s 1 (v 2))" % t]
            elif how == "expr":
                a, b = split_sum(v, rng)
                M = ["(decl 0 0 %s 2 %d)" % (W, a), "(decl 0 0 %s 1 (bin + (v 2) %d))" % (t, b)]
            elif how == "tern-lit":
                M = [COND1, "(decl 0 0 %s 1 (cond (v 4) %d %d))" % (t, v, rng.choice([0, 1]))]
            elif how == "tern-else":
                M = [COND0, "(decl 0 0 %s 1 (cond (v 4) %d %d))" % (t, rng.choice([0, 1]), v)]
            elif how == "tern-var":
                M = ["(decl 0 0 %s 2 %d)" % (W, v), COND1, "(decl 0 0 %s 1 (cond (v 4) (v 2) 0))" % t]
            elif how == "call":
                F = [IDENT]
                M = ["(decl 0 0 %s 1 (call 2 %d))" % (t, v)]
            elif how == "elem1":
                M = ["(arr 0 long 5 (3) (0 %d 0))" % v, "(decl 0 0 %s 1 (idx 5 1))" % t]
            elif how == "const":
                M = ["(decl 1 0 %s 1 %d)" % (t, v)]
            elif how == "block":
                M = [COND1, "(if (v 4) ((decl 0 0 %s 1 %d) %s) ())" % (t, v, _readback(1))]
                return "(P () () (%s))" % " ".join(M), query, extra
            else:
                raise ValueError(path)
            M.append(_readback(1))
    elif p == "assign":
        start = rng.choice([0, 1])
        D = "(decl 0 0 %s 1 %d)" % (t, start)
        if how == "lit":
            M = [D, "(asg (v 1) %d)" % v]
        elif how == "var":
            M = ["(decl 0 0 %s 2 %d)" % (W, v), D, "(asg (v 1) (v 2))"]
        elif how == "expr":
            a, b = split_sum(v, rng)
            M = ["(decl 0 0 %s 2 %d)" % (W, a), D, "(asg (v 1) (bin + (v 2) %d))" % b]
        elif how == "tern-lit":
            M = [COND1, D, "(asg (v 1) (cond (v 4) %d %d))" % (v, start)]
        elif how == "tern-else":
            M = [COND0, D, "(asg (v 1) (cond (v 4) %d %d))" % (start, v)]
        elif how == "tern-var":
            M = ["(decl 0 0 %s 2 %d)" % (W, v), COND1, D, "(asg (v 1) (cond (v 4) (v 2) 0))"]
        elif how == "tern-expr":
            a, b = split_sum(v, rng)
            M = ["(decl 0 0 %s 2 %d)" % (W, a), COND1, D, "(asg (v 1) (cond (v 4) (bin + (v 2) %d) (v 1)))" % b]
        elif how == "tern-call":
            F = [IDENT]
            M = [COND1, D, "(asg (v 1) (cond (v 4) (call 2 %d) 0))" % v]
        elif how == "tern-nested":
            M = [COND1, D, "(asg (v 1) (cond (v 4) (cond (v 4) %d 1) 0))" % v]
        elif how == "tern-tinyvar":
            # the selected branch is NARROWER than the target (hint tiny)
            if not (-128 <= v <= 127):
                return None
            M = ["(decl 0 0 tiny 2 %d)" % v, COND1, D, "(asg (v 1) (cond (v 4) (v 2) 0))"]
        elif how == "tern-bool":
            # the selected branch is inferred bool (a comparison, or - / ~ applied to one): the value is normalised to 0 / 1 before
            # the store (finding C04-ternary-assign-bool-branch); only -2, -1, 0 and 1 can be written that way
            e = {1: "(bin == (v 4) 1)", 0: "(bin != (v 4) 1)", -1: "(un - (bin == (v 4) 1))", -2: "(un ~ (bin == (v 4) 1))"}.get(v)
            if e is None:
                return None
            M = [COND1, "(decl 0 0 %s 1 %d)" % (t, 1 - start), "(asg (v 1) (cond (v 4) %s %d))" % (e, start)]
        elif how == "call":
            F = [IDENT]
            M = [D, "(asg (v 1) (call 2 %d))" % v]
        elif how == "elem1":
            M = ["(arr 0 long 5 (3) (0 %d 0))" % v, D, "(asg (v 1) (idx 5 1))"]
        elif how == "uninit":
            M = ["(decl 0 0 %s 1)" % t, "(asg (v 1) %d)" % v]
        elif how == "global":
            # a global assigned from inside a function
            G = ["(G 0 %s 1 () (%d))" % (t, start)]
            F = ["(F 1 long ((7 long)) ((asg (v 1) (v 7)) (ret 0)))"]
            M = ["(expr (call 1 %d))" % v]
        elif how == "param":
            F = ["(F 1 long ((1 %s) (7 long)) ((asg (v 1) (v 7)) (ret (bin + (v 1) 0))))" % t]
            M = ["(print 1 (call 1 %d %d))" % (start, v)]
            return "(P () (%s) (%s))" % (" ".join(F), " ".join(M)), query, extra
        elif how == "outer":
            M = [D, COND1, "(while (v 4) ((if (v 4) ((asg (v 1) %d)) ()) (asg (v 4) 0)))" % v]
        elif how == "static":
            F = ["(F 1 long ((7 long)) ((decl 0 1 %s 1 %d) (asg (v 1) (v 7)) (ret (bin + (v 1) 0))))" % (t, start)]
            M = ["(print 1 (call 1 %d))" % v]
            return "(P () (%s) (%s))" % (" ".join(F), " ".join(M)), query, extra
        else:
            raise ValueError(path)
        M.append(_readback(1))
    elif p == "compound":
        if how in ("add", "sub", "mul", "global", "static"):
            r = compound_operands("add" if how in ("global", "static") else how, t, v, rng)
        elif how == "or":
            r = (0, "|", v)
        elif how == "shl":
            r = (v // 2, "<<", 1) if (v % 2 == 0 and 0 <= v // 2 <= hi) else None
        elif how == "div":
            if lo < 0 and v == hi + 1 and lo == -(hi + 1) and in64(v):
                r = (lo, "/", -1)            # the one out-of-range quotient: min / -1
            elif lo <= v <= hi:
                r = (v, "/", 1)
            else:
                r = None
        else:
            raise ValueError(path)
        if r is None:
            return None
        start, op, operand = r
        if how == "global":
            G = ["(G 0 %s 1 () (%d))" % (t, start)]
            M = ["(casg %s (v 1) %d)" % (op, operand), _readback(1)]
        elif how == "static":
            F = ["(F 1 long ((7 long)) ((decl 0 1 %s 1 %d) (casg %s (v 1) (v 7)) (ret (bin + (v 1) 0))))" % (t, start, op)]
            M = ["(print 1 (call 1 %d))" % operand]
        else:
            M = ["(decl 0 0 %s 1 %d)" % (t, start), "(casg %s (v 1) %d)" % (op, operand), _readback(1)]
    elif p == "incdec-var":
        r = incdec_start(t, v, rng)
        if r is None:
            return None
        start, inc = r
        pre = rng.randint(0, 1)
        if how in ("pre", "post"):
            M = ["(decl 0 0 %s 1 %d)" % (t, start), "(incdec %d %d (v 1))" % (1 if how == "pre" else 0, inc), _readback(1)]
        elif how == "for-update":
            # the update clause of a for statement: runs once after the body
            M = ["(decl 0 0 %s 1 %d)" % (t, start),
                 "(for ((decl 0 0 long 4 0)) (bin < (v 4) 1) ((incdec %d %d (v 1))) ((asg (v 4) (bin + (v 4) 1))))" % (pre, inc), _readback(1)]
        elif how == "global":
            G = ["(G 0 %s 1 () (%d))" % (t, start)]
            F = ["(F 1 long () ((incdec %d %d (v 1)) (ret 0)))" % (pre, inc)]
            M = ["(expr (call 1))", _readback(1)]
        elif how == "param":
            F = ["(F 1 long ((1 %s)) ((incdec %d %d (v 1)) (ret (bin + (v 1) 0))))" % (t, pre, inc)]
            M = ["(print 1 (call 1 %d))" % start]
        elif how == "static":
            F = ["(F 1 long () ((decl 0 1 %s 1 %d) (incdec %d %d (v 1)) (ret (bin + (v 1) 0))))" % (t, start, pre, inc)]
            M = ["(print 1 (call 1))"]
        else:
            raise ValueError(path)
    elif p == "incdec-elem":
        r = incdec_start(t, v, rng)
        if r is None:
            return None
        start, inc = r
        M = ["(arr 0 %s 1 (3) (0 %d 0))" % (t, start), "(incdec %d %d (idx 1 1))" % (1 if how == "pre" else 0, inc),
             _readback_elem(1, [1]), _readback_elem(1, [0]), _readback_elem(1, [2])]
        extra = [0, 0]
        query = "update %s %s %d %d" % (mpath, t, start, 1 if inc else -1)
    elif p == "arg":
        if how == "default":
            F = ["(F 1 long ((1 long) (2 %s %d)) ((ret (bin + (v 2) (v 1)))))" % (t, v)]
            M = ["(print 1 (call 1 0))"]
        elif how == "second":
            F = ["(F 1 long ((7 long) (1 %s)) ((ret (bin + (v 1) (v 7)))))" % t]
            M = ["(print 1 (call 1 0 %d))" % v]
        else:
            F = ["(F 1 long ((1 %s)) ((ret (bin + (v 1) 0))))" % t]
            if how == "lit":
                M = ["(print 1 (call 1 %d))" % v]
            elif how == "var":
                M = ["(decl 0 0 %s 2 %d)" % (W, v), "(print 1 (call 1 (v 2)))"]
            elif how == "expr":
                a, b = split_sum(v, rng)
                M = ["(decl 0 0 %s 2 %d)" % (W, a), "(print 1 (call 1 (bin + (v 2) %d)))" % b]
            elif how == "call":
                F.append(IDENT)
                M = ["(print 1 (call 1 (call 2 %d)))" % v]
            elif how == "tern":
                M = [COND1, "(print 1 (call 1 (cond (v 4) %d 0)))" % v]
            else:
                raise ValueError(path)
    elif p == "return":
        if how == "var":
            F = ["(F 1 %s ((1 %s)) ((ret (v 1))))" % (t, W)]
            M = ["(decl 0 0 long 3 (call 1 %d))" % v, _readback(3)]
        elif how == "expr":
            a, b = split_sum(v, rng)
            F = ["(F 1 %s ((1 long)) ((ret (bin + (v 1) %d))))" % (t, b)]
            M = ["(decl 0 0 long 3 (call 1 %d))" % a, _readback(3)]
        elif how == "lit":
            F = ["(F 1 %s () ((ret %d)))" % (t, v)]
            M = ["(decl 0 0 long 3 (call 1))", _readback(3)]
        elif how == "tern":
            F = ["(F 1 %s ((7 long)) ((ret (cond (v 7) %d 0))))" % (t, v)]
            M = ["(decl 0 0 long 3 (call 1 1))", _readback(3)]
        elif how == "call":
            F = [IDENT, "(F 1 %s ((1 long)) ((ret (call 2 (v 1)))))" % t]
            M = ["(decl 0 0 long 3 (call 1 %d))" % v, _readback(3)]
        elif how == "nested":
            # return from inside a loop and a conditional
            F = ["(F 1 %s ((1 long) (7 long)) ((while (v 7) ((if (v 7) ((ret (v 1))) ()))) (ret 0)))" % t]
            M = ["(decl 0 0 long 3 (call 1 %d 1))" % v, _readback(3)]
        elif how == "direct":
            # the result is not stored, it is yielded to println
            F = ["(F 1 %s ((1 long)) ((ret (v 1))))" % t]
            M = ["(print 1 (bin + (call 1 %d) 0))" % v]
        else:
            raise ValueError(path)
    elif p == "elem1":
        n = rng.randint(2, 4)
        k = rng.randrange(n)
        A = "(arr 0 %s 1 (%d) ())" % (t, n)
        if how == "global":
            G = ["(G 0 %s 1 (%d) ())" % (t, n)]
            M = ["(asg (idx 1 %d) %d)" % (k, v)]
        elif how == "lit":
            M = [A, "(asg (idx 1 %d) %d)" % (k, v)]
        elif how == "var":
            M = ["(decl 0 0 %s 2 %d)" % (W, v), A, "(asg (idx 1 %d) (v 2))" % k]
        elif how == "tern":
            M = [COND1, A, "(asg (idx 1 %d) (cond (v 4) %d 0))" % (k, v)]
        elif how == "call":
            F = [IDENT]
            M = [A, "(asg (idx 1 %d) (call 2 %d))" % (k, v)]
        elif how == "var-index":
            M = ["(decl 0 0 int 4 %d)" % k, A, "(asg (idx 1 (v 4)) %d)" % v]
        else:
            raise ValueError(path)
        M += [_readback_elem(1, [k])] + [_readback_elem(1, [j]) for j in range(n) if j != k]
        extra = [0] * (n - 1)
    elif p == "elem1-compound":
        # (a negative char element as the left operand of + crashed the interpreter before 7c216d9: start >= 0 for char)
        r = compound_operands("add", t, v, rng, nonneg_start=(t == "char"))
        if r is None:
            return None
        start, op, operand = r
        ix = "1"
        if how == "var-index":
            M = ["(decl 0 0 int 4 1)"]        # a[v4] op= d: the parser copies a variable index into the desugared right-hand side
            ix = "(v 4)"
        M += ["(arr 0 %s 1 (3) (0 %d 0))" % (t, start), "(casg %s (idx 1 %s) %d)" % (op, ix, operand),
              _readback_elem(1, [1]), _readback_elem(1, [0]), _readback_elem(1, [2])]
        extra = [0, 0]
        query = "update %s %s %d %d" % (mpath, t, start, operand)
    elif p == "elemN":
        dims = [2, 2, 2] if how == "lit3" else [2, 3]
        idx = [rng.randrange(d) for d in dims]
        ix = " ".join(map(str, idx))
        A = "(arr 0 %s 1 (%s) ())" % (t, " ".join(map(str, dims)))
        if how.startswith("lit"):
            M = [A, "(asg (idx 1 %s) %d)" % (ix, v)]
        elif how == "var2":
            M = ["(decl 0 0 %s 2 %d)" % (W, v), A, "(asg (idx 1 %s) (v 2))" % ix]
        elif how == "tern":
            M = [COND1, A, "(asg (idx 1 %s) (cond (v 4) %d 0))" % (ix, v)]
        elif how == "call":
            F = [IDENT]
            M = [A, "(asg (idx 1 %s) (call 2 %d))" % (ix, v)]
        else:
            raise ValueError(path)
        other = [(idx[0] + 1) % dims[0]] + idx[1:]
        M += [_readback_elem(1, idx), _readback_elem(1, other)]
        extra = [0]
    elif p == "literal1":
        n = 3
        k = rng.randrange(n)
        elts = ["0"] * n
        if how == "lit":
            elts[k] = str(v)
            M = ["(arr 0 %s 1 (%d) (%s))" % (t, n, " ".join(elts))]
        else:
            elts[k] = "(v 2)"
            M = ["(decl 0 0 %s 2 %d)" % (W, v), "(arr 0 %s 1 (%d) (%s))" % (t, n, " ".join(elts))]
        M += [_readback_elem(1, [k])] + [_readback_elem(1, [j]) for j in range(n) if j != k]
        extra = [0] * (n - 1)
    elif p == "literalN":
        elts = ["0"] * 4
        k = rng.randrange(4)
        elts[k] = str(v)
        o = (k + 1) % 4
        M = ["(arr 0 %s 1 (2 2) (%s))" % (t, " ".join(elts)), _readback_elem(1, [k // 2, k % 2]), _readback_elem(1, [o // 2, o % 2])]
        extra = [0]
    elif p == "global":
        if how in ("scalar", "const"):
            G = ["(G %d %s 1 () (%d))" % (1 if how == "const" else 0, t, v)]
            M = [_readback(1)]
        else:
            elts = ["0"] * 3
            k = rng.randrange(3)
            elts[k] = str(v)
            G = ["(G 0 %s 1 (3) (%s))" % (t, " ".join(elts))]
            M = [_readback_elem(1, [k])] + [_readback_elem(1, [j]) for j in range(3) if j != k]
            extra = [0, 0]
    elif p == "static":
        if how == "lit":
            F = ["(F 1 long () ((decl 0 1 %s 1 %d) (ret (bin + (v 1) 0))))" % (t, v)]
            M = ["(print 1 (call 1))"]
        else:
            a, b = split_sum(v, rng)
            F = ["(F 1 long ((7 long)) ((decl 0 1 %s 1 (bin + (v 7) %d)) (ret (bin + (v 1) 0))))" % (t, b)]
            M = ["(print 1 (call 1 %d))" % a]
    elif p == "from-elemN":
        # the stored VALUE is a bare multi-dimensional element (long carrier array)
        M0 = ["(arr 0 long 2 (2 2) (0 0 0 %d))" % v]
        if how == "decl":
            M = M0 + ["(decl 0 0 %s 1 (idx 2 1 1))" % t, _readback(1)]
        elif how == "assign":
            M = M0 + ["(decl 0 0 %s 1 0)" % t, "(asg (v 1) (idx 2 1 1))", _readback(1)]
        else:
            G = ["(G 0 long 2 (2 2) (0 0 0 %d))" % v]
            F = ["(F 1 %s () ((ret (idx 2 1 1))))" % t]
            M = ["(decl 0 0 long 3 (call 1))", _readback(3)]
    elif p == "member":
        # struct S1 { long m0 ; T m1 ; } ; S1 v2 ;  member j of struct variable x is the cell 1000 + 8 * x + j (Lang.Syntax.mkey):
        # v2.m1 = cell 1017, v2.m0 = cell 1016 (must stay 0).  managers/structs/assignment.cpp assign_struct_member /
        # assign_struct_member_array_element, incdec.cpp (member branch): clamp + check_type_range since fix a3f0b3d
        tgt, pad = 1017, 1016
        if how in ("elem1", "elemN"):
            dims = [3] if how == "elem1" else [2, 2]
            idx = [rng.randrange(d) for d in dims]
            other = [(idx[0] + 1) % dims[0]] + idx[1:]
            M = ["(struct 1 2 long (%s %s))" % (t, " ".join(map(str, dims))), "(asg (idx %d %s) %d)" % (tgt, " ".join(map(str, idx)), v),
                 _readback_elem(tgt, idx), _readback_elem(tgt, other), _readback(pad)]
            extra = [0, 0]
        else:
            S = "(struct 1 2 long %s)" % t
            if how == "lit":
                M = [S, "(asg (v %d) %d)" % (tgt, v)]
            elif how == "var":
                M = ["(decl 0 0 %s 3 %d)" % (W, v), S, "(asg (v %d) (v 3))" % tgt]
            elif how == "tern":
                M = [COND1, S, "(asg (v %d) (cond (v 4) %d 0))" % (tgt, v)]
            elif how == "call":
                F = [IDENT]
                M = [S, "(asg (v %d) (call 2 %d))" % (tgt, v)]
            elif how == "compound":
                r = compound_operands("add", t, v, rng)
                if r is None:
                    return None
                start, op, operand = r
                M = [S, "(asg (v %d) %d)" % (tgt, start), "(casg %s (v %d) %d)" % (op, tgt, operand)]
            elif how in ("incdec-pre", "incdec-post"):
                r = incdec_start(t, v, rng)
                if r is None:
                    return None
                start, inc = r
                M = [S, "(asg (v %d) %d)" % (tgt, start), "(incdec %d %d (v %d))" % (1 if how == "incdec-pre" else 0, inc, tgt)]
            else:
                raise ValueError(path)
            M += [_readback(tgt), _readback(pad)]
            extra = [0]
    else:
        raise ValueError(path)
    return "(P (%s) (%s) (%s))" % (" ".join(G), " ".join(F), " ".join(M)), query, extra


TYPEDEF_KINDS_QUICK = ("min-1", "min", "max", "max+1", "rand-in", "rand-above", "rand-below")


def matrix(rng, types=None, paths=None, all_typedef_kinds=False):
    """-> list of (sexpr, meta) with meta = {path, type, kind, value, query, extra[, typedef]}; a cell whose meta has
    `typedef` is the same program with the target's type written through a typedef alias (see typedef_source)"""
    out = []
    for t in (types or TYPES):
        vals = values_for(t, rng)
        for path in (paths or PATHS):
            for kind in KINDS:
                v = vals.get(kind)
                if v is None:
                    continue
                r = build(path, t, v, rng)
                if r is None:
                    continue
                sx, query, extra = r
                out.append((sx, {"path": path, "type": t, "kind": kind, "value": v, "query": query, "extra": extra}))
                if t in TYPEDEF_ALIAS and (all_typedef_kinds or kind in TYPEDEF_KINDS_QUICK):
                    q = query
                    if path in TD_MECH_PATH:
                        q = "store %s %s %d" % (TD_MECH_PATH[path], t, v)
                    out.append((sx, {"path": "typedef/" + path, "type": t, "kind": kind, "value": v, "query": q, "extra": extra,
                                     "typedef": TYPEDEF_ALIAS[t]}))
    return out


def typedef_source(src, t):
    """the Cb text printed by the reference printer with every occurrence of the type name `t` replaced by a typedef alias"""
    import re
    alias = TYPEDEF_ALIAS[t]
    # (`unsigned tiny` - the type of a carrier variable - stays: `unsigned T8` is a parse error)
    return "typedef %s %s;\n" % (t, alias) + re.sub(r"(?<!unsigned )\b%s\b" % t, alias, src)


# ---------------------------------------------------------------------------------------------
# cells outside CbCore (no Ref run: the expected transcript is the Spec conversion of the one store)
# ---------------------------------------------------------------------------------------------
RAW_PATHS = ["multi-decl:lit", "multi-decl:first", "multi-decl:var", "multi-decl:call", "multi-decl:tern",
             "incdec-expr:post", "incdec-expr:pre", "neglit:decl", "neglit:assign", "elem1:param", "elem1:assign-expr", "elem1-compound:assign-expr",
             "funcptr-arg:lit",
             "arrlit-assign:1d", "arrlit-assign:2d", "arr-copy:assign", "arr-copy:param",
             # direct member stores (range checked since fix a3f0b3d: Mech = Spec, main must show the Spec transcript)
             "member:assign", "member:compound", "member:array-elem", "member:array-elem2", "member:param", "member:generic",
             "member:incdec-expr",
             # what the fix does not cover: struct literals (unsigned clamp only) ...
             "member-literal:positional", "member-literal:named", "member-literal:nested", "member-literal:generic", "member-literal:assign",
             "member-literal:struct-array-elem", "member-literal:array", "member-arrlit:assign",
             # ... and indirect member stores (nothing): nested member, through a pointer, through a reference / self, element of a struct array
             "member-nested:assign", "member-nested:compound", "member-pointer:arrow", "member-pointer:deref-dot",
             "member-reference:local", "member-reference:param", "member-reference:self",
             "member-struct-array:assign", "member-struct-array:compound",
             "deref:assign", "deref:incdec", "reference:assign", "reference:param", "reference:incdec"]


def raw_build(path, t, v, rng):
    """-> (Cb source, mech_query, extra) or None"""
    if not in64(v):
        return None
    T = TYPE_TEXT[t]
    base = t[1:] if t.startswith("u") else t
    lo, hi = RANGES[t]
    p, how = path.split(":")
    extra = []
    rb = "  println( ( b + 0 ) ) ;\n"

    def lit(x):
        if x == I64[0]:
            return "( ( 0 - %d ) - 1 )" % I64[1]       # 9223372036854775808 is not a token
        return str(x) if x >= 0 else "( 0 - %d )" % -x
    if p == "multi-decl":
        # execute_multiple_var_decl -> execute_variable_declaration (variable_declaration.cpp): assign_variable with the declared
        # type as hint; a ?: initialiser -> execute_ternary_variable_initialization (hint = inferred type of the branch)
        q = "store decl-multi:%s %s %d" % (base, t, v)
        if how == "lit":
            body = "  %s a = 1 , b = %s ;\n" % (T, lit(v))
        elif how == "first":
            body = "  %s b = %s , a = 1 ;\n" % (T, lit(v))
        elif how == "var":
            body = "  long w = %s ;\n  %s a = 1 , b = w ;\n" % (lit(v), T)
        elif how == "call":
            body = "  %s a = 1 , b = id( %s ) ;\n" % (T, lit(v))
        else:
            q = "store decl-multi:int %s %d" % (t, v)
            body = "  long c = 1 ;\n  %s a = 1 , b = c ? %s : 0 ;\n" % (T, lit(v))
        src = "long id( long x ) {\n  return x ;\n}\nvoid main() {\n%s%s  println( ( a + 0 ) ) ;\n}\n" % (body, rb)
        return src, q, [1]
    if p == "incdec-expr":
        r = incdec_start(t, v, rng)
        if r is None:
            return None
        start, inc = r
        op = "++" if inc else "--"
        e = ("b %s" % op) if how == "post" else ("%s b" % op)
        wv = start if how == "post" else "="     # the value of the expression itself: the old value / the value now stored
        src = "void main() {\n  %s b = %s ;\n  long w = %s ;\n%s  println( w ) ;\n}\n" % (T, lit(start), e, rb)
        return src, "store incdec-var %s %d" % (t, v), [wv]
    if p == "neglit":
        if v >= 0 or v == I64[0]:
            return None
        if how == "decl":
            src = "void main() {\n  %s b = -%d ;\n%s}\n" % (T, -v, rb)
            return src, "store decl %s %d" % (t, v), []
        src = "void main() {\n  %s b = 1 ;\n  b = -%d ;\n%s}\n" % (T, -v, rb)
        return src, "store assign %s %d" % (t, v), []
    if p == "elem1" and how == "param":
        src = ("void f( %s[3] a , long x ) {\n  a[ 1 ] = x ;\n  println( ( 0 + a[ 1 ] ) ) ;\n  println( ( 0 + a[ 0 ] ) ) ;\n}\n"
               "void main() {\n  %s[3] a ;\n  f( a , %s ) ;\n}\n" % (T, T, lit(v)))
        return src, "store elem1 %s %d" % (t, v), [0]
    if path == "elem1:assign-expr":
        # an assignment to a 1-D element used as an expression: evaluator/operators/assignment.cpp -> Interpreter::assign_array_element
        # (the only assignment expression that works: a variable target crashes - finding C04-assignment-expression-crash -, a
        # multi-dimensional element and a member are refused).  The value of the expression is the right-hand side as evaluated; it is
        # printed only when the store keeps it as it is
        keeps = lo <= v <= hi
        src = ("void main() {\n  %s[3] a ;\n  long w = ( a[ 1 ] = %s ) ;\n  println( ( 0 + a[ 1 ] ) ) ;\n  println( ( 0 + a[ 0 ] ) ) ;\n"
               "  println( ( 0 + a[ 2 ] ) ) ;\n%s}\n" % (T, lit(v), "  println( w ) ;\n" if keeps and (hi < 128 or v < (hi + 1) // 2) else ""))
        return src, "store elem1 %s %d" % (t, v), [0, 0] + (["="] if keeps and (hi < 128 or v < (hi + 1) // 2) else [])
    if path == "elem1-compound:assign-expr":
        r = compound_operands("add", t, v, rng, nonneg_start=(t == "char"))
        if r is None:
            return None
        start, op, operand = r
        src = ("void main() {\n  %s[3] a = [ 0 , %s , 0 ] ;\n  long w = ( a[ 1 ] %s= %s ) ;\n  println( ( 0 + a[ 1 ] ) ) ;\n  println( ( 0 + a[ 0 ] ) ) ;\n"
               "  println( ( 0 + a[ 2 ] ) ) ;\n}\n" % (T, lit(start), op, lit(operand)))
        return src, "update elem1-compound %s %d %d" % (t, start, operand), [0, 0]
    if p == "funcptr-arg":
        # evaluator/functions/call_impl.cpp:354/523 (call through a function pointer): assign_function_parameter.
        # A range error on this path ends in SIGSEGV after the message (finding C04-funcptr-arg-range-error-crash): in-range and
        # clamped values only
        if not (lo <= v <= hi or (lo == 0 and v < 0)):
            return None
        src = "long f( %s a ) {\n  return ( a + 0 ) ;\n}\nvoid main() {\n  long* fp = &f ;\n  println( fp( %s ) ) ;\n}\n" % (T, lit(v))
        return src, "store arg %s %d" % (t, v), []
    if p == "arrlit-assign":
        if how == "1d":
            src = "void main() {\n  %s[3] a ;\n  a = [ 0 , %s , 0 ] ;\n  println( ( 0 + a[ 1 ] ) ) ;\n  println( ( 0 + a[ 2 ] ) ) ;\n}\n" % (T, lit(v))
            return src, "store arrlit-assign1 %s %d" % (t, v), [0]
        src = ("void main() {\n  %s[2][2] a ;\n  a = [ [ 0 , %s ] , [ 0 , 0 ] ] ;\n  println( ( 0 + a[ 0 ][ 1 ] ) ) ;\n"
               "  println( ( 0 + a[ 1 ][ 1 ] ) ) ;\n}\n" % (T, lit(v)))
        return src, "store arrlit-assignN %s %d" % (t, v), [0]
    if p == "arr-copy":
        if how == "assign":
            src = ("void main() {\n  long[3] w = [ 0 , %s , 0 ] ;\n  %s[3] a ;\n  a = w ;\n  println( ( 0 + a[ 1 ] ) ) ;\n"
                   "  println( ( 0 + a[ 2 ] ) ) ;\n}\n" % (lit(v), T))
        else:
            src = ("long f( %s[3] a ) {\n  println( ( 0 + a[ 1 ] ) ) ;\n  return ( 0 + a[ 2 ] ) ;\n}\n"
                   "void main() {\n  long[3] w = [ 0 , %s , 0 ] ;\n  println( f( w ) ) ;\n}\n" % (T, lit(v)))
        return src, "store arr-copy %s %d" % (t, v), [0]
    if p == "member":
        # managers/structs/assignment.cpp assign_struct_member / assign_struct_member_array_element, incdec.cpp member branch:
        # unsigned clamp, then check_type_range (fix a3f0b3d)
        q = "store member %s %d" % (t, v)
        if how == "assign":
            src = ("struct S { %s m ; long pad ; } ;\nvoid main() {\n  S s ;\n  s.m = %s ;\n  println( ( s.m + 0 ) ) ;\n"
                   "  println( s.pad ) ;\n}\n" % (T, lit(v)))
            return src, q, [0]
        if how == "compound":
            r = compound_operands("add", t, v, rng)
            if r is None:
                return None
            start, op, operand = r
            src = ("struct S { %s m ; long pad ; } ;\nvoid main() {\n  S s ;\n  s.m = %s ;\n  s.m %s= %s ;\n  println( ( s.m + 0 ) ) ;\n"
                   "  println( s.pad ) ;\n}\n" % (T, lit(start), op, lit(operand)))
            return src, q, [0]
        if how == "array-elem":
            src = ("struct S { %s[3] a ; long pad ; } ;\nvoid main() {\n  S s ;\n  s.a[ 1 ] = %s ;\n  println( ( 0 + s.a[ 1 ] ) ) ;\n"
                   "  println( ( 0 + s.a[ 2 ] ) ) ;\n}\n" % (T, lit(v)))
            return src, q, [0]
        if how == "array-elem2":
            src = ("struct S { %s[2][2] a ; long pad ; } ;\nvoid main() {\n  S s ;\n  s.a[ 1 ][ 0 ] = %s ;\n  println( ( 0 + s.a[ 1 ][ 0 ] ) ) ;\n"
                   "  println( ( 0 + s.a[ 0 ][ 0 ] ) ) ;\n  println( s.pad ) ;\n}\n" % (T, lit(v)))
            return src, q, [0, 0]
        if how == "param":
            src = ("struct S { %s m ; long pad ; } ;\nlong f( S s , long x ) {\n  s.m = x ;\n  return ( s.m + 0 ) ;\n}\n"
                   "void main() {\n  S s ;\n  println( f( s , %s ) ) ;\n}\n" % (T, lit(v)))
            return src, q, []
        if how == "generic":
            if t.startswith("u"):
                return None
            src = "struct Box<T> { T v ; } ;\nvoid main() {\n  Box<%s> b ;\n  b.v = %s ;\n  println( ( b.v + 0 ) ) ;\n}\n" % (T, lit(v))
            return src, "store member-generic %s %d" % (t, v), []
        if how == "incdec-expr":
            # s.m++ / --s.m as an expression: the value of the expression itself is printed too
            r = incdec_start(t, v, rng)
            if r is None:
                return None
            start, inc = r
            op = "++" if inc else "--"
            post = rng.randint(0, 1)
            e = ("s.m %s" % op) if post else ("%s s.m" % op)
            src = ("struct S { %s m ; long pad ; } ;\nvoid main() {\n  S s ;\n  s.m = %s ;\n  long w = %s ;\n  println( ( s.m + 0 ) ) ;\n"
                   "  println( w ) ;\n  println( s.pad ) ;\n}\n" % (T, lit(start), e))
            return src, q, [start if post else "=", 0]
    if p == "member-literal":
        # managers/structs/assignment.cpp process_named_initialization / process_positional_initialization: the unsigned clamp only
        # (finding C04-struct-literal-unchecked)
        q = "store member-literal %s %d" % (t, v)
        if how == "positional":
            src = ("struct S { long pad ; %s m ; } ;\nvoid main() {\n  S s = { 7 , %s } ;\n  println( ( s.m + 0 ) ) ;\n"
                   "  println( s.pad ) ;\n}\n" % (T, lit(v)))
            return src, q, [7]
        if how == "named":
            src = ("struct S { %s m ; long pad ; } ;\nvoid main() {\n  S s = { m : %s , pad : 7 } ;\n  println( ( s.m + 0 ) ) ;\n"
                   "  println( s.pad ) ;\n}\n" % (T, lit(v)))
            return src, q, [7]
        if how == "nested":
            src = ("struct I { %s m ; } ;\nstruct O { I in ; long pad ; } ;\nvoid main() {\n  O o = { in : { m : %s } , pad : 7 } ;\n"
                   "  println( ( o.in.m + 0 ) ) ;\n  println( o.pad ) ;\n}\n" % (T, lit(v)))
            return src, q, [7]
        if how == "generic":
            if t.startswith("u"):
                return None
            src = "struct Box<T> { T v ; } ;\nvoid main() {\n  Box<%s> b = { v : %s } ;\n  println( ( b.v + 0 ) ) ;\n}\n" % (T, lit(v))
            return src, q, []
        if how == "assign":
            src = ("struct S { %s m ; long pad ; } ;\nvoid main() {\n  S s ;\n  s = { m : %s , pad : 7 } ;\n  println( ( s.m + 0 ) ) ;\n"
                   "  println( s.pad ) ;\n}\n" % (T, lit(v)))
            return src, q, [7]
        if how == "struct-array-elem":
            # the documented way to fill an array of structs: ps[i] = {..};
            src = ("struct S { %s m ; long pad ; } ;\nvoid main() {\n  S[3] ps ;\n  ps[ 1 ] = { m : %s , pad : 7 } ;\n  println( ( ps[ 1 ].m + 0 ) ) ;\n"
                   "  println( ps[ 1 ].pad ) ;\n  println( ( ps[ 2 ].m + 0 ) ) ;\n}\n" % (T, lit(v)))
            return src, q, [7, 0]
        if how == "array":
            # an array member inside the literal: clamp, and the element is read back narrowed like a 1-D array element
            src = ("struct S { %s[3] a ; long pad ; } ;\nvoid main() {\n  S s = { a : [ 0 , %s , 0 ] , pad : 7 } ;\n"
                   "  println( ( 0 + s.a[ 1 ] ) ) ;\n  println( ( 0 + s.a[ 2 ] ) ) ;\n  println( s.pad ) ;\n}\n" % (T, lit(v)))
            return src, "store member-literal-arr %s %d" % (t, v), [0, 7]
    if p == "member-arrlit":
        # s.a = [..]: StructAssignmentManager::assign_struct_member_array_literal - clamp only (finding C04-array-literal-assign-unchecked)
        src = ("struct S { %s[3] a ; long pad ; } ;\nvoid main() {\n  S s ;\n  s.a = [ 0 , %s , 0 ] ;\n  println( ( 0 + s.a[ 1 ] ) ) ;\n"
               "  println( ( 0 + s.a[ 2 ] ) ) ;\n  println( s.pad ) ;\n}\n" % (T, lit(v)))
        return src, "store member-arrlit-assign %s %d" % (t, v), [0, 0]
    if p == "member-nested":
        # a member of a nested struct: Variable::value is written directly, not even the clamp (finding C04-nested-member-store-unchecked)
        q = "store member-nested %s %d" % (t, v)
        if how == "assign":
            src = ("struct I { %s m ; } ;\nstruct O { I in ; long pad ; } ;\nvoid main() {\n  O o ;\n  o.in.m = %s ;\n"
                   "  println( ( o.in.m + 0 ) ) ;\n  println( o.pad ) ;\n}\n" % (T, lit(v)))
            return src, q, [0]
        if how == "compound":
            r = compound_operands("add", t, v, rng)
            if r is None:
                return None
            start, op, operand = r
            src = ("struct I { %s m ; } ;\nstruct O { I in ; long pad ; } ;\nvoid main() {\n  O o ;\n  o.in.m = %s ;\n  o.in.m %s= %s ;\n"
                   "  println( ( o.in.m + 0 ) ) ;\n  println( o.pad ) ;\n}\n" % (T, lit(start), op, lit(operand)))
            return src, q, [0]
    if p == "member-pointer":
        # a member reached through a pointer to the struct (finding C04-member-through-pointer-unchecked)
        q = "store member-pointer %s %d" % (t, v)
        tgt = "p->m" if how == "arrow" else "( *p ).m"
        src = ("struct S { %s m ; long pad ; } ;\nvoid main() {\n  S s ;\n  S* p = &s ;\n  %s = %s ;\n  println( ( s.m + 0 ) ) ;\n"
               "  println( s.pad ) ;\n}\n" % (T, tgt, lit(v)))
        return src, q, [0]
    if p == "member-reference":
        # a member reached through a reference to the struct, or through self inside a method (finding C04-member-through-reference-unchecked)
        q = "store member-reference %s %d" % (t, v)
        if how == "local":
            src = ("struct S { %s m ; long pad ; } ;\nvoid main() {\n  S s ;\n  S& r = s ;\n  r.m = %s ;\n  println( ( s.m + 0 ) ) ;\n"
                   "  println( s.pad ) ;\n}\n" % (T, lit(v)))
        elif how == "param":
            src = ("struct S { %s m ; long pad ; } ;\nvoid f( S& r , long x ) {\n  r.m = x ;\n}\nvoid main() {\n  S s ;\n  f( s , %s ) ;\n"
                   "  println( ( s.m + 0 ) ) ;\n  println( s.pad ) ;\n}\n" % (T, lit(v)))
        else:
            src = ("interface Setter { void put( long x ) ; } ;\nstruct S { %s m ; long pad ; } ;\nimpl Setter for S {\n  void put( long x ) {\n"
                   "    self.m = x ;\n  }\n} ;\nvoid main() {\n  S s ;\n  s.put( %s ) ;\n  println( ( s.m + 0 ) ) ;\n  println( s.pad ) ;\n}\n" % (T, lit(v)))
        return src, q, [0]
    if p == "member-struct-array":
        # a member of an element of a struct array (finding C04-struct-array-member-unchecked)
        q = "store member-struct-array %s %d" % (t, v)
        if how == "assign":
            body = "  ps[ 1 ].m = %s ;\n" % lit(v)
        else:
            r = compound_operands("add", t, v, rng)
            if r is None:
                return None
            start, op, operand = r
            body = "  ps[ 1 ].m = %s ;\n  ps[ 1 ].m %s= %s ;\n" % (lit(start), op, lit(operand))
        src = ("struct S { %s m ; long pad ; } ;\nvoid main() {\n  S[3] ps ;\n%s  println( ( ps[ 1 ].m + 0 ) ) ;\n"
               "  println( ps[ 1 ].pad ) ;\n  println( ( ps[ 0 ].m + 0 ) ) ;\n}\n" % (T, body))
        return src, q, [0, 0]
    if p == "deref":
        src = "void main() {\n  %s b = 1 ;\n  %s* p = &b ;\n  *p = %s ;\n%s}\n" % (T, T, lit(v), rb)
        return src, "store deref %s %d" % (t, v), []
    if path == "deref:incdec":
        # ( *p ) ++ / -- ( *p ): incdec.cpp, dereference branch - `target_var->value += 1`, no clamp, no check (finding C04-pointer-store-unchecked)
        r = incdec_start(t, v, rng)
        if r is None:
            return None
        start, inc = r
        o = "++" if inc else "--"
        e = ("( *p ) %s" % o) if rng.randint(0, 1) else ("%s ( *p )" % o)
        src = "void main() {\n  %s b = %s ;\n  %s* p = &b ;\n  %s ;\n%s}\n" % (T, lit(start), T, e, rb)
        return src, "store deref %s %d" % (t, v), []
    if path == "reference:incdec":
        # q ++ through a reference: unlike q = e and q op= e it reaches the variable branch of incdec.cpp and IS clamped and checked
        r = incdec_start(t, v, rng)
        if r is None:
            return None
        start, inc = r
        o = "++" if inc else "--"
        e = ("q %s" % o) if rng.randint(0, 1) else ("%s q" % o)
        src = "void main() {\n  %s b = %s ;\n  %s& q = b ;\n  %s ;\n%s}\n" % (T, lit(start), T, e, rb)
        return src, "store incdec-var %s %d" % (t, v), []
    if p == "reference":
        if how == "assign":
            src = "void main() {\n  %s b = 1 ;\n  %s& q = b ;\n  q = %s ;\n%s}\n" % (T, T, lit(v), rb)
        else:
            src = "void f( %s& q , long x ) {\n  q = x ;\n}\nvoid main() {\n  %s b = 1 ;\n  f( b , %s ) ;\n%s}\n" % (T, T, lit(v), rb)
        return src, "store reference %s %d" % (t, v), []
    raise ValueError(path)


def raw_matrix(rng, types=None, paths=None):
    """-> list of (source, meta) - cells that CbCore cannot express; meta as in matrix() plus raw=True"""
    out = []
    for t in (types or TYPES):
        vals = values_for(t, rng)
        for path in (paths or RAW_PATHS):
            for kind in KINDS:
                v = vals.get(kind)
                if v is None:
                    continue
                r = raw_build(path, t, v, rng)
                if r is None:
                    continue
                src, query, extra = r
                out.append((src, {"path": "raw/" + path, "type": t, "kind": kind, "value": v, "query": query, "extra": extra, "raw": True}))
    return out


# ---------------------------------------------------------------------------------------------
# stores under `try` / `checked`: the range error is caught, the program goes on, and what the REJECTED store left in its target
# (and in its neighbours) is read back.  Every cell is a sequence of stores into one target, each under try, each followed by reads;
# the model answers `effects <path> <type> <cell> <op> ..` (Mech: order of check and write of the path) / `spec-effects ..` (Spec: a
# rejected store changes nothing) give, per store, accepted / rejected and what the cell holds afterwards; CbCore cells are also run
# on the extracted try layer (coq/C04/Try.v, `bin/c04_model try`).
# ---------------------------------------------------------------------------------------------
TRY_PATHS = [
    "try-incdec-var:post", "try-incdec-var:pre", "try-incdec-var:global", "try-incdec-var:checked",
    "try-incdec-elem:post", "try-incdec-elem:pre", "try-incdec-elem:global",
    "try-incdec-member:post", "try-incdec-member:pre",
    "try-call-assign:var", "try-call-assign:lit", "try-call-assign:expr", "try-call-assign:tern", "try-call-assign:call",
    "try-call-assign:nested", "try-call-assign:checked",
    "try-call-compound:add", "try-call-incdec:stmt",
    "try-call-elem1:global", "try-call-elemN:global", "try-call-incdec-elem:global",
    "try-call-static:assign", "try-call-static:init",
    "try-call-arg:narrow", "try-call-arg:second", "try-call-return:narrow", "try-call-decl:local",
]
# try path -> path of the Mech model (the `effects` query)
TRY_MECH = {
    "try-incdec-var": "incdec-var", "try-incdec-elem": "incdec-elem1", "try-incdec-elem:global": "elem1-global",
    "try-incdec-member": "member",
    "try-call-assign": "assign", "try-call-assign:tern": "assign-hint:long", "try-call-assign:call": "assign-call",
    "try-call-compound": "compound", "try-call-incdec": "incdec-var",
    "try-call-elem1:global": "elem1-global", "try-call-elemN:global": "elemN-global", "try-call-incdec-elem:global": "elem1-global",
    "try-call-static:assign": "static-assign", "try-call-static:init": "static",
    "try-call-arg": "arg", "try-call-return": "return", "try-call-decl": "decl",
}


def _try(chk, action):
    return "(try %d %s)" % (1 if chk else 0, action)


def _pr(*es):
    return "(print 1 %s)" % " ".join(es)


def _rd(x):
    return "(bin + (v %d) 0)" % x


def _rde(a, idx):
    return "(bin + 0 (idx %d %s))" % (a, " ".join(map(str, idx)))


def accepted_value(t, rng, avoid=()):
    lo, hi = RANGES[t]
    for _ in range(20):
        w = rng.choice([lo, hi, rng.randint(lo, hi), rng.randint(max(lo, -100), min(hi, 100))])
        if w not in avoid:
            return w
    return 0 if 0 not in avoid else 1


def try_build(path, t, v, rng):
    """-> None or a cell {sexpr, mpath, type, cell0, ops, payloads, after}: a try-program (S-expression of coq/C04/Try.v) that performs
    len(ops) stores into one target, each under try / checked, the first one storing `v`.
      ops      : the stores as `effects` operations (=V store V, +D store cell + D)
      payloads : per store what Ok( w ) carries - "7" (the callee's constant result), "old" / "new" (x++ / ++x: the stored value before /
                 after), "newread" (a read of the target afterwards)
      after    : per store the println that follows it - a list of tokens, "T" = a read of the target, an int = a constant neighbour
                 (None: no println)
      cell0    : what the target holds before the first store"""
    if not in64(v):
        return None
    p, how = path.split(":")
    mpath = TRY_MECH.get(path) or TRY_MECH[p]
    lo, hi = RANGES[t]
    chk = how == "checked"
    G, F, M = [], [], []
    tail = None
    SENT = "(G 0 long 9 () (7))"           # long v9 = 7 : a sentinel global that nothing stores to
    if p in ("try-incdec-var", "try-incdec-elem", "try-incdec-member") or path in ("try-call-incdec:stmt", "try-call-incdec-elem:global"):
        r = incdec_start(t, v, rng)
        if r is None:
            return None
        start, inc = r
        d = 1 if inc else -1
        ops = ["+%d" % d, "+%d" % d, "+%d" % -d, "+%d" % d]
        incs = [inc, inc, 1 - inc, inc]
        if p == "try-incdec-var":
            pres = [1 if how == "pre" else 0 if how == "post" else rng.randint(0, 1)] + [rng.randint(0, 1) for _ in range(3)]
            if how == "global":
                G = ["(G 0 %s 1 () (%d))" % (t, start), SENT]
                nb = 7
                rdn = "(v 9)"
            else:
                M = ["(decl 0 0 %s 1 %d)" % (t, start), "(decl 0 0 long 3 7)"]
                nb = 7
                rdn = "(v 3)"
            acts = [_try(chk, "(incdec %d %d (v 1))" % (pres[k], incs[k])) for k in range(4)]
            M += [acts[0], _pr(_rd(1), rdn), acts[1], _pr(_rd(1)), acts[2], _pr(_rd(1), rdn), acts[3], _pr(_rd(1))]
            after = [["T", nb], ["T"], ["T", nb], ["T"]]
            payloads = ["new" if x else "old" for x in pres]
            # the target once more through other read paths: bound to a parameter, copied into a long, printed as it is
            F = [IDENT]
            M += ["(decl 0 0 long 5 (v 1))", _pr("(call 2 (v 1))", "(v 5)", *([] if t == "char" else ["(v 1)"]))]
            tail = ["T", "T"] + ([] if t == "char" else ["T"])
        elif p == "try-incdec-elem":
            pres = [1 if how == "pre" else 0 if how == "post" else rng.randint(0, 1)] + [rng.randint(0, 1) for _ in range(3)]
            if how == "global":
                G = ["(G 0 %s 1 (3) (0 %d 1))" % (t, start)]
            else:
                M = ["(arr 0 %s 1 (3) (0 %d 1))" % (t, start)]
            acts = [_try(chk, "(incdec %d %d (idx 1 1))" % (pres[k], incs[k])) for k in range(4)]
            rd3 = _pr(_rde(1, [1]), _rde(1, [0]), _rde(1, [2]))
            M += [acts[0], rd3, acts[1], _pr(_rde(1, [1])), acts[2], rd3, acts[3], _pr(_rde(1, [1]))]
            after = [["T", 0, 1], ["T"], ["T", 0, 1], ["T"]]
            payloads = ["new" if x else "old" for x in pres]
            # the element once more through a variable index and bound to a parameter
            F = [IDENT]
            M += ["(decl 0 0 int 4 1)", _pr("(bin + 0 (idx 1 (v 4)))", "(call 2 (idx 1 1))")]
            tail = ["T", "T"]
        elif p == "try-incdec-member":
            pres = [1 if how == "pre" else 0] + [rng.randint(0, 1) for _ in range(3)]
            tgt = 1017                       # v2.m1 ; v2.m0 = 5 and v2.m2 = 6 are the neighbours
            M = ["(struct 1 2 long %s long)" % t, "(asg (v 1016) 5)", "(asg (v 1018) 6)", "(asg (v %d) %d)" % (tgt, start)]
            acts = [_try(chk, "(incdec %d %d (v %d))" % (pres[k], incs[k], tgt)) for k in range(4)]
            rd3 = _pr(_rd(tgt), "(v 1016)", "(v 1018)")
            M += [acts[0], rd3, acts[1], _pr(_rd(tgt)), acts[2], rd3, acts[3], _pr(_rd(tgt))]
            after = [["T", 5, 6], ["T"], ["T", 5, 6], ["T"]]
            payloads = ["new" if x else "old" for x in pres]
            # the member once more through a copy of the whole struct (the struct's own member table, not the variable `v2.m1`)
            M += ["(struct 1 3 long %s long)" % t, "(copy 3 2 long %s long)" % t, _pr(_rd(1025), "(v 1024)", "(v 1026)")]
            tail = ["T", 5, 6]
        elif path == "try-call-incdec:stmt":
            # the callee performs the ++ / -- on a global
            G = ["(G 0 %s 1 () (%d))" % (t, start), SENT]
            pre = rng.randint(0, 1)
            F = ["(F 1 long () ((incdec %d %d (v 1)) (ret 7)))" % (pre, inc), "(F 3 long () ((incdec %d %d (v 1)) (ret 7)))" % (pre, 1 - inc)]
            acts = [_try(chk, "(call %d)" % f) for f in (1, 1, 3, 1)]
            M = [acts[0], _pr(_rd(1), "(v 9)"), acts[1], _pr(_rd(1)), acts[2], _pr(_rd(1), "(v 9)"), acts[3], _pr(_rd(1))]
            after = [["T", 7], ["T"], ["T", 7], ["T"]]
            payloads = ["7"] * 4
        else:
            G = ["(G 0 %s 1 (3) (0 %d 1))" % (t, start)]
            pre = rng.randint(0, 1)
            F = ["(F 1 long () ((incdec %d %d (idx 1 1)) (ret 7)))" % (pre, inc), "(F 3 long () ((incdec %d %d (idx 1 1)) (ret 7)))" % (pre, 1 - inc)]
            acts = [_try(chk, "(call %d)" % f) for f in (1, 1, 3, 1)]
            rd3 = _pr(_rde(1, [1]), _rde(1, [0]), _rde(1, [2]))
            M = [acts[0], rd3, acts[1], _pr(_rde(1, [1])), acts[2], rd3, acts[3], _pr(_rde(1, [1]))]
            after = [["T", 0, 1], ["T"], ["T", 0, 1], ["T"]]
            payloads = ["7"] * 4
        cell0 = start
    elif p == "try-call-assign":
        start = accepted_value(t, rng)
        w = accepted_value(t, rng, avoid=(start,))
        G = ["(G 0 %s 1 () (%d))" % (t, start), SENT]
        calls = ["(call 1 %d)" % v, "(call 1 %d)" % v, "(call 1 %d)" % w, "(call 1 %d)" % v]
        if how in ("var", "checked"):
            F = ["(F 1 long ((7 long)) ((asg (v 1) (v 7)) (ret 7)))"]
        elif how == "lit":
            F = ["(F 1 long () ((asg (v 1) %d) (ret 7)))" % v, "(F 3 long () ((asg (v 1) %d) (ret 7)))" % w]
            calls = ["(call 1)", "(call 1)", "(call 3)", "(call 1)"]
        elif how == "expr":
            a, b = split_sum(v, rng)
            if not in64(w - b):
                return None
            F = ["(F 1 long ((7 long)) ((asg (v 1) (bin + (v 7) %d)) (ret 7)))" % b]
            calls = ["(call 1 %d)" % a, "(call 1 %d)" % a, "(call 1 %d)" % (w - b), "(call 1 %d)" % a]
        elif how == "tern":
            F = ["(F 1 long ((7 long)) ((decl 0 0 long 4 1) (asg (v 1) (cond (v 4) (v 7) 0)) (ret 7)))"]
        elif how == "call":
            F = [IDENT, "(F 1 long ((7 long)) ((asg (v 1) (call 2 (v 7))) (ret 7)))"]
        elif how == "nested":
            # the store happens two calls below the try; the value of the inner call is used afterwards (never reached when rejected)
            F = ["(F 1 long ((7 long)) ((asg (v 1) (v 7)) (ret 7)))", "(F 3 long ((7 long)) ((ret (bin + (call 1 (v 7)) 0))))"]
            calls = [c.replace("(call 1 ", "(call 3 ") for c in calls]
        else:
            raise ValueError(path)
        acts = [_try(chk, c) for c in calls]
        M = [acts[0], _pr(_rd(1), "(v 9)"), acts[1], _pr(_rd(1)), acts[2], _pr(_rd(1), "(v 9)"), acts[3], _pr(_rd(1))]
        ops = ["=%d" % v, "=%d" % v, "=%d" % w, "=%d" % v]
        after = [["T", 7], ["T"], ["T", 7], ["T"]]
        payloads = ["7"] * 4
        cell0 = start
        if IDENT not in F:
            F.append(IDENT)
        M += ["(decl 0 0 long 5 (v 1))", _pr("(call 2 (v 1))", "(v 5)")]
        tail = ["T", "T"]
    elif p == "try-call-compound":
        r = compound_operands("add", t, v, rng)
        if r is None:
            return None
        start, op, operand = r
        w = accepted_value(t, rng, avoid=(start,))
        G = ["(G 0 %s 1 () (%d))" % (t, start), SENT]
        F = ["(F 1 long ((7 long)) ((casg + (v 1) (v 7)) (ret 7)))"]
        back = w - start                       # brings a cell that still holds `start` to w
        if not in64(back):
            return None
        acts = [_try(chk, "(call 1 %d)" % x) for x in (operand, operand, back, operand)]
        M = [acts[0], _pr(_rd(1), "(v 9)"), acts[1], _pr(_rd(1)), acts[2], _pr(_rd(1), "(v 9)"), acts[3], _pr(_rd(1))]
        ops = ["+%d" % operand, "+%d" % operand, "+%d" % back, "+%d" % operand]
        after = [["T", 7], ["T"], ["T", 7], ["T"]]
        payloads = ["7"] * 4
        cell0 = start
    elif path in ("try-call-elem1:global", "try-call-elemN:global"):
        slo, shi = RANGES[t[1:]] if t.startswith("u") else (lo, hi)     # a global array has lost is_unsigned: start values both readings admit
        start = rng.choice([x for x in (0, 1, min(hi, shi), rng.randint(0, min(hi, shi))) if True])
        w = rng.choice([x for x in (2, 3, min(hi, shi) - 1, rng.randint(0, min(hi, shi))) if x != start] or [2])
        if p == "try-call-elem1":
            G = ["(G 0 %s 1 (3) (0 %d 1))" % (t, start)]
            F = ["(F 1 long ((7 long)) ((asg (idx 1 1) (v 7)) (ret 7)))"]
            tg, n0, n1 = _rde(1, [1]), _rde(1, [0]), _rde(1, [2])
        else:
            G = ["(G 0 %s 1 (2 2) (0 1 %d 0))" % (t, start)]
            F = ["(F 1 long ((7 long)) ((asg (idx 1 1 0) (v 7)) (ret 7)))"]
            tg, n0, n1 = _rde(1, [1, 0]), _rde(1, [0, 0]), _rde(1, [0, 1])
        acts = [_try(chk, "(call 1 %d)" % x) for x in (v, v, w, v)]
        M = [acts[0], _pr(tg, n0, n1), acts[1], _pr(tg), acts[2], _pr(tg, n0, n1), acts[3], _pr(tg)]
        ops = ["=%d" % v, "=%d" % v, "=%d" % w, "=%d" % v]
        after = [["T", 0, 1], ["T"], ["T", 0, 1], ["T"]]
        payloads = ["7"] * 4
        cell0 = start
    elif path == "try-call-static:assign":
        slo, shi = RANGES[t[1:]] if t.startswith("u") else (lo, hi)     # a static has lost is_unsigned (finding C04-static-unsigned-flag-lost)
        start = rng.choice([0, 1, min(hi, shi)])
        w = rng.choice([x for x in (2, 3, min(hi, shi) - 1) if x != start])
        # long f1(long v7, long v6) { static T v8 = start; if (v6) { v8 = v7; } return (v8 + 0); }
        F = ["(F 1 long ((7 long) (6 long)) ((decl 0 1 %s 8 %d) (if (v 6) ((asg (v 8) (v 7))) ()) (ret (bin + (v 8) 0))))" % (t, start)]
        acts = [_try(chk, "(call 1 %d 1)" % x) for x in (v, v, w, v)]
        rdv = "(call 1 0 0)"
        M = [acts[0], _pr(rdv), acts[1], _pr(rdv), acts[2], _pr(rdv), acts[3], _pr(rdv)]
        ops = ["=%d" % v, "=%d" % v, "=%d" % w, "=%d" % v]
        after = [["T"]] * 4
        payloads = ["newread"] * 4
        cell0 = start
    elif path == "try-call-static:init":
        # static T v8 = v7; - a rejected initialiser must not create the static: the next call initialises it
        if lo <= v <= hi or (lo == 0 and v < 0):
            return None
        w = accepted_value(t, rng)
        F = ["(F 1 long ((7 long)) ((decl 0 1 %s 8 (v 7)) (ret (bin + (v 8) 0))))" % t]
        acts = [_try(chk, "(call 1 %d)" % x) for x in (v, v, w)]
        M = [acts[0], acts[1], acts[2], _pr("(call 1 0)")]
        ops = ["=%d" % v, "=%d" % v, "=%d" % w]
        after = [None, None, ["T"]]
        payloads = ["newread"] * 3
        cell0 = 0
    elif p in ("try-call-arg", "try-call-return", "try-call-decl"):
        w = accepted_value(t, rng)
        G = ["(G 0 long 9 () (0))"]
        if p == "try-call-arg":
            if how == "second":
                F = ["(F 1 long ((7 long) (2 %s)) ((asg (v 9) (bin + (v 9) 1)) (ret (bin + (v 2) (v 7)))))" % t]
                calls = ["(call 1 0 %d)" % x for x in (v, v, w, v)]
            else:
                F = ["(F 1 long ((2 %s)) ((asg (v 9) (bin + (v 9) 1)) (ret (bin + (v 2) 0))))" % t]
                calls = ["(call 1 %d)" % x for x in (v, v, w, v)]
            counts = None                   # the body runs only when the argument was accepted
        elif p == "try-call-return":
            # the stores of the body happen before the result is rejected: the counter goes up every time
            F = ["(F 1 %s ((7 long)) ((asg (v 9) (bin + (v 9) 1)) (ret (v 7))))" % t]
            calls = ["(call 1 %d)" % x for x in (v, v, w, v)]
            counts = [1, 2, 3, 4]
        else:
            F = ["(F 1 long ((7 long)) ((asg (v 9) (bin + (v 9) 1)) (decl 0 0 %s 8 (v 7)) (ret (bin + (v 8) 0))))" % t]
            calls = ["(call 1 %d)" % x for x in (v, v, w, v)]
            counts = [1, 2, 3, 4]
        acts = [_try(chk, c) for c in calls]
        M = []
        for a in acts:
            M += [a, _pr("(v 9)")]
        ops = ["=%d" % v, "=%d" % v, "=%d" % w, "=%d" % v]
        after = [["C"]] * 4 if counts is None else [[c] for c in counts]
        payloads = ["newread"] * 4
        cell0 = 0
    else:
        raise ValueError(path)
    return {"sexpr": "(T (%s) (%s) (%s))" % (" ".join(G), " ".join(F), " ".join(M)), "mpath": mpath, "type": t, "cell0": cell0,
            "ops": ops, "payloads": payloads, "after": after, "tail": tail}


def predict_try(cell, answers):
    """stdout of a try cell whose stores behave as `answers` = [(accepted, read, raw)] say"""
    lines = []
    raw_prev = read_prev = cell["cell0"]
    accepted = 0
    for k, (ok, read, raw) in enumerate(answers):
        if ok:
            accepted += 1
            kind = cell["payloads"][k]
            if kind == "value":                 # the right-hand side of an assignment expression as evaluated
                op = cell["ops"][k]
                pl = int(op[1:]) + (0 if op[0] == "=" else raw_prev if op[0] == "+" else read_prev)
            else:
                pl = {"7": 7, "old": raw_prev, "new": raw, "newread": read}[kind]
            lines.append("1 %d" % pl)
        else:
            lines.append("0")
        toks = cell["after"][k]
        if toks is not None:
            lines.append(" ".join(str(read) if x == "T" else str(accepted) if x == "C" else str(x) for x in toks))
        raw_prev, read_prev = raw, read
    if cell.get("tail") and answers:
        read = answers[-1][1]
        lines.append(" ".join(str(read) if x == "T" else str(x) for x in cell["tail"]))
    return "".join(l + "\n" for l in lines)


def try_wellformed(cell, answers):
    """every value a store of the cell computes stays inside int64 (64-bit overflow on the way to a store is not a well-formed
    program: Undef in Ref, finding C04-long-arithmetic-wraps in main)"""
    raw = read = cell["cell0"]
    for op, (ok, rd, rw) in zip(cell["ops"], answers):
        v = int(op[1:])
        if op[0] == "+":
            v += raw
        elif op[0] == "~":
            v += read
        if not in64(v):
            return False
        raw, read = rw, rd
    return True


def parse_effects(line):
    """`ok READ RAW ; range READ RAW ; ..` -> [(accepted, read, raw)]"""
    out = []
    for part in line.split(";"):
        w = part.split()
        if len(w) != 3 or w[0] not in ("ok", "range"):
            raise ValueError("effects answer %r" % line)
        out.append((w[0] == "ok", int(w[1]), int(w[2])))
    return out


def try_queries(cell):
    t = cell["type"]
    return ("effects %s %s %d %s" % (cell["mpath"], t, cell["cell0"], " ".join(cell["ops"])),
            "spec-effects %s %d %s" % (t, cell["cell0"], " ".join(cell["ops"])))


def try_matrix(rng, types=None, paths=None):
    """-> list of (cell, meta) - meta = {path, type, kind, value, query, spec_query}"""
    out = []
    for t in (types or TYPES):
        vals = values_for(t, rng)
        for path in (paths or TRY_PATHS):
            for kind in KINDS:
                v = vals.get(kind)
                if v is None:
                    continue
                c = try_build(path, t, v, rng)
                if c is None:
                    continue
                q, sq = try_queries(c)
                out.append((c, {"path": path, "type": t, "kind": kind, "value": v, "query": q, "spec_query": sq, "try": True}))
    return out


# try cells outside CbCore (no Ref run: the expected transcript is predicted from the Spec effects)
RAW_TRY_PATHS = ["raw-try-reference:incdec", "raw-try-elem:assign-expr", "raw-try-elem:compound-expr", "raw-try-arrparam:elem", "raw-try-param:incdec", "raw-try-static:incdec", "raw-try-block:incdec",
                 "raw-try-gmember:assign", "raw-try-gmember:compound", "raw-try-gmember:incdec", "raw-try-gmember:array-elem",
                 "raw-try-lmember:array-elem-call", "raw-try-loop:assign", "raw-try-typedef:incdec", "raw-try-generic:incdec-call"]
RAW_TRY_MECH = {"raw-try-reference": "incdec-var", "raw-try-elem:assign-expr": "elem1", "raw-try-elem:compound-expr": "elem1-compound", "raw-try-arrparam": "elem1", "raw-try-param": "incdec-var", "raw-try-static": "static-assign", "raw-try-block": "incdec-var", "raw-try-gmember": "member",
                "raw-try-lmember": "member", "raw-try-loop": "assign", "raw-try-typedef": "incdec-var", "raw-try-generic": "member-generic"}
REPORT = "  match ( %s ) { Ok( w ) => { println( 1 , w ) ; } Err( e ) => { println( 0 , e ) ; } }\n"


def _cb_lit(x):
    if x == I64[0]:
        return "( ( 0 - %d ) - 1 )" % I64[1]
    return str(x) if x >= 0 else "( 0 - %d )" % -x


def raw_try_build(path, t, v, rng):
    if not in64(v):
        return None
    T = TYPE_TEXT[t]
    p, how = path.split(":")
    mpath = RAW_TRY_MECH.get(path) or RAW_TRY_MECH[p]
    lo, hi = RANGES[t]
    kw = rng.choice(["try", "checked"])
    lit = _cb_lit

    def tr(k, e, ind="  "):
        return "%sResult<int, RuntimeError> r%d = %s %s ;\n%s%s" % (ind, k, kw, e, ind, REPORT.lstrip() % ("r%d" % k))
    if p == "raw-try-elem":
        # `try ( a[ 1 ] = e )` / `try ( a[ 1 ] += e )`: the one assignment expression that works puts a store into a LOCAL array element
        # directly under try.  Ok carries the right-hand side as evaluated; cells in which the store converts it (a negative into an
        # unsigned element) are left out - what the expression should yield then is not documented
        if how == "assign-expr":
            start = accepted_value(t, rng)
            w = accepted_value(t, rng, avoid=(start,))
            vals = [v, v, w, v]
            if lo == 0 and min(vals) < 0:
                return None
            ops = ["=%d" % x for x in vals]
            es = ["( a[ 1 ] = %s )" % lit(x) for x in vals]
        else:
            r = compound_operands("add", t, v, rng, nonneg_start=(t == "char"))
            if r is None:
                return None
            start, op, operand = r
            if lo == 0 and (v < 0 or start - operand < 0):
                return None
            if lo == 0 and hi < I64[1] and start >= (hi + 1) // 2:
                return None                      # (the old value is read narrowed: finding C04-unsigned-element-read-narrowed, covered without try)
            vals = [operand, operand, -operand if op == "+" else operand, operand]
            ops = ["~%d" % (x if op == "+" else -x) for x in [operand, operand, -operand, operand]]
            es = ["( a[ 1 ] %s= %s )" % (op, lit(x)) for x in [operand, operand, -operand, operand]]
        body = "".join(tr(k, es[k]) + "  println( ( 0 + a[ 1 ] ) , ( 0 + a[ 0 ] ) , ( 0 + a[ 2 ] ) ) ;\n" for k in range(4))
        src = "void main() {\n  %s[3] a = [ 0 , %s , 1 ] ;\n%s}\n" % (T, lit(start), body)
        return {"src": src, "mpath": mpath, "type": t, "cell0": start, "ops": ops, "payloads": ["value"] * 4, "after": [["T", 0, 1]] * 4}
    if p == "raw-try-arrparam":
        # an array parameter refers to the caller's array: the callee's rejected element store must leave it as it was
        start = accepted_value(t, rng)
        w = accepted_value(t, rng, avoid=(start,))
        args = [v, v, w, v]
        ops = ["=%d" % x for x in args]
        body = "".join(tr(k, "f( b , %s )" % lit(args[k])) + "  println( ( 0 + b[ 1 ] ) , ( 0 + b[ 0 ] ) , ( 0 + b[ 2 ] ) ) ;\n" for k in range(4))
        src = "long f( %s[3] a , long x ) {\n  a[ 1 ] = x ;\n  return 7 ;\n}\nvoid main() {\n  %s[3] b = [ 0 , %s , 1 ] ;\n%s}\n" % (T, T, lit(start), body)
        return {"src": src, "mpath": mpath, "type": t, "cell0": start, "ops": ops, "payloads": ["7"] * 4, "after": [["T", 0, 1]] * 4}
    if how in ("incdec", "incdec-call") and p != "raw-try-gmember":
        r = incdec_start(t, v, rng)
        if r is None:
            return None
        start, inc = r
        d = 1 if inc else -1
        ops = ["+%d" % d, "+%d" % d, "+%d" % -d, "+%d" % d]
        pres = [rng.randint(0, 1) for _ in range(4)]
        incs = [inc, inc, 1 - inc, inc]

        def e(k, x):
            o = "++" if incs[k] else "--"
            return ("%s %s" % (o, x)) if pres[k] else ("%s %s" % (x, o))
        payloads = ["new" if x else "old" for x in pres]
        after = [["T", 7], ["T"], ["T", 7], ["T"]]
        if p == "raw-try-param":
            body = "".join(tr(k, e(k, "p")) + ("  println( ( p + 0 ) , n ) ;\n" if k % 2 == 0 else "  println( ( p + 0 ) ) ;\n") for k in range(4))
            src = "long f( %s p , long n ) {\n%s  return 0 ;\n}\nvoid main() {\n  f( %s , 7 ) ;\n}\n" % (T, body, lit(start))
        elif p == "raw-try-static":
            slo, shi = RANGES[t[1:]] if t.startswith("u") else (lo, hi)
            if not (slo <= start <= shi and start >= 0):
                return None
            body = "".join(tr(k, e(k, "s")) + ("  println( ( s + 0 ) , n ) ;\n" if k % 2 == 0 else "  println( ( s + 0 ) ) ;\n") for k in range(4))
            src = "long f( long n ) {\n  static %s s = %s ;\n%s  return 0 ;\n}\nvoid main() {\n  f( 7 ) ;\n}\n" % (T, lit(start), body)
        elif p == "raw-try-block":
            body = "".join(tr(k, e(k, "b"), "      ") + ("      println( ( b + 0 ) , n ) ;\n" if k % 2 == 0 else "      println( ( b + 0 ) ) ;\n") for k in range(4))
            src = ("void main() {\n  long n = 7 ;\n  %s b = %s ;\n  for ( long i = 0 ; i < 1 ; i = i + 1 ) {\n    if ( n ) {\n%s    }\n  }\n"
                   "  println( ( b + 0 ) ) ;\n}\n" % (T, lit(start), body))
            after = after[:3] + [["T"]]
            # the variable is read once more after the blocks are left
            return {"src": src, "mpath": mpath, "type": t, "cell0": start, "ops": ops, "payloads": payloads, "after": after, "tail": ["T"]}
        elif p == "raw-try-reference":
            # ++ / -- through a reference to the variable: the referenced variable is read back
            body = "".join(tr(k, e(k, "q")) + ("  println( ( b + 0 ) , n ) ;\n" if k % 2 == 0 else "  println( ( b + 0 ) ) ;\n") for k in range(4))
            src = "void main() {\n  long n = 7 ;\n  %s b = %s ;\n  %s& q = b ;\n%s}\n" % (T, lit(start), T, body)
        elif p == "raw-try-typedef":
            if t not in TYPEDEF_ALIAS:
                return None
            A = TYPEDEF_ALIAS[t]
            body = "".join(tr(k, e(k, "b")) + ("  println( ( b + 0 ) , n ) ;\n" if k % 2 == 0 else "  println( ( b + 0 ) ) ;\n") for k in range(4))
            src = "typedef %s %s ;\nvoid main() {\n  long n = 7 ;\n  %s b = %s ;\n%s}\n" % (T, A, A, lit(start), body)
        elif p == "raw-try-generic":
            if t.startswith("u"):
                return None
            fs = "".join("long f%d() {\n  %s ;\n  return 7 ;\n}\n" % (k, e(k, "gb.v")) for k in range(4))
            body = "".join(tr(k, "f%d()" % k) + ("  println( ( gb.v + 0 ) , n ) ;\n" if k % 2 == 0 else "  println( ( gb.v + 0 ) ) ;\n") for k in range(4))
            src = "struct Box<T> { T v ; } ;\nBox<%s> gb ;\n%svoid main() {\n  long n = 7 ;\n  gb.v = %s ;\n%s}\n" % (T, fs, lit(start), body)
            payloads = ["7"] * 4
        else:
            raise ValueError(path)
        return {"src": src, "mpath": mpath, "type": t, "cell0": start, "ops": ops, "payloads": payloads, "after": after}
    if p == "raw-try-gmember":
        decl = "struct S { long p0 ; %s m ; long p1 ; %s[3] a ; } ;\nS gs ;\n" % (T, T)
        init = "  gs.p0 = 5 ;\n  gs.p1 = 6 ;\n"
        if how == "array-elem":
            start = accepted_value(t, rng)
            w = accepted_value(t, rng, avoid=(start,))
            f = "long f( long x ) {\n  gs.a[ 1 ] = x ;\n  return 7 ;\n}\n"
            init += "  gs.a[ 1 ] = %s ;\n  gs.a[ 2 ] = 1 ;\n" % lit(start)
            rd3 = "  println( ( 0 + gs.a[ 1 ] ) , ( 0 + gs.a[ 0 ] ) , ( 0 + gs.a[ 2 ] ) ) ;\n"
            rd1 = "  println( ( 0 + gs.a[ 1 ] ) ) ;\n"
            args = [v, v, w, v]
            ops = ["=%d" % x for x in args]
            body = "".join(tr(k, "f( %s )" % lit(args[k])) + (rd3 if k % 2 == 0 else rd1) for k in range(4))
            after = [["T", 0, 1], ["T"], ["T", 0, 1], ["T"]]
        else:
            rd3 = "  println( ( gs.m + 0 ) , gs.p0 , gs.p1 ) ;\n"
            rd1 = "  println( ( gs.m + 0 ) ) ;\n"
            after = [["T", 5, 6], ["T"], ["T", 5, 6], ["T"]]
            if how == "assign":
                start = accepted_value(t, rng)
                w = accepted_value(t, rng, avoid=(start,))
                f = "long f( long x ) {\n  gs.m = x ;\n  return 7 ;\n}\n"
                args = [v, v, w, v]
                ops = ["=%d" % x for x in args]
                body = "".join(tr(k, "f( %s )" % lit(args[k])) + (rd3 if k % 2 == 0 else rd1) for k in range(4))
            elif how == "compound":
                r = compound_operands("add", t, v, rng)
                if r is None:
                    return None
                start, op, operand = r
                w = accepted_value(t, rng, avoid=(start,))
                if not in64(w - start):
                    return None
                f = "long f( long x ) {\n  gs.m += x ;\n  return 7 ;\n}\n"
                args = [operand, operand, w - start, operand]
                ops = ["+%d" % x for x in args]
                body = "".join(tr(k, "f( %s )" % lit(args[k])) + (rd3 if k % 2 == 0 else rd1) for k in range(4))
            else:
                r = incdec_start(t, v, rng)
                if r is None:
                    return None
                start, inc = r
                d = 1 if inc else -1
                o, oo = ("++", "--") if inc else ("--", "++")
                f = "long f( long x ) {\n  if ( x ) {\n    gs.m %s ;\n  } else {\n    %s gs.m ;\n  }\n  return 7 ;\n}\n" % (o, oo)
                args = [1, 1, 0, 1]
                ops = ["+%d" % d, "+%d" % d, "+%d" % -d, "+%d" % d]
                body = "".join(tr(k, "f( %d )" % args[k]) + (rd3 if k % 2 == 0 else rd1) for k in range(4))
            init += "  gs.m = %s ;\n" % lit(start)
        src = decl + f + "void main() {\n" + init + body + "}\n"
        return {"src": src, "mpath": mpath, "type": t, "cell0": start, "ops": ops, "payloads": ["7"] * 4, "after": after}
    if p == "raw-try-lmember":
        # a struct parameter is a copy: the callee stores into the element of its member array and reads it back after a nested try
        start = accepted_value(t, rng)
        w = accepted_value(t, rng, avoid=(start,))
        f = ("long setel( long x ) {\n  gs.a[ 2 ] = x ;\n  return 7 ;\n}\n")
        decl = "struct S { %s[3] a ; long p0 ; } ;\nS gs ;\n" % T
        args = [v, v, w, v]
        ops = ["=%d" % x for x in args]
        body = "".join(tr(k, "setel( %s )" % lit(args[k])) + "  println( ( 0 + gs.a[ 2 ] ) , ( 0 + gs.a[ 1 ] ) , gs.p0 ) ;\n" for k in range(4))
        src = decl + f + "void main() {\n  gs.p0 = 5 ;\n  gs.a[ 1 ] = 1 ;\n  gs.a[ 2 ] = %s ;\n%s}\n" % (lit(start), body)
        return {"src": src, "mpath": mpath, "type": t, "cell0": start, "ops": ops, "payloads": ["7"] * 4, "after": [["T", 1, 5]] * 4}
    if p == "raw-try-loop":
        start = accepted_value(t, rng)
        w = accepted_value(t, rng, avoid=(start,))
        src = ("%s g = %s ;\nlong f( long x ) {\n  g = x ;\n  return 7 ;\n}\nvoid main() {\n  for ( long i = 0 ; i < 3 ; i = i + 1 ) {\n"
               "    Result<int, RuntimeError> r = %s f( %s ) ;\n    %s    println( ( g + 0 ) ) ;\n  }\n%s  println( ( g + 0 ) ) ;\n}\n" % (
                   T, lit(start), kw, lit(v), REPORT.lstrip() % "r", tr(9, "f( %s )" % lit(w))))
        return {"src": src, "mpath": mpath, "type": t, "cell0": start, "ops": ["=%d" % v] * 3 + ["=%d" % w], "payloads": ["7"] * 4,
                "after": [["T"]] * 4}
    raise ValueError(path)


def raw_try_matrix(rng, types=None, paths=None):
    out = []
    for t in (types or TYPES):
        vals = values_for(t, rng)
        for path in (paths or RAW_TRY_PATHS):
            for kind in KINDS:
                v = vals.get(kind)
                if v is None:
                    continue
                c = raw_try_build(path, t, v, rng)
                if c is None:
                    continue
                q, sq = try_queries(c)
                out.append((c, {"path": path, "type": t, "kind": kind, "value": v, "query": q, "spec_query": sq, "try": True, "raw": True}))
    return out


# ---------------------------------------------------------------------------------------------
# random programs mixing the store paths (inside the fragment where today's code is correct)
# ---------------------------------------------------------------------------------------------
NARROW = ["tiny", "short", "int", "char", "utiny", "ushort", "uint", "ulong", "long"]


def mixed_program(rng):
    """A straight-line program of 4-10 stores over 3-5 typed cells (in half of the programs also the narrow members of a plain
    struct); every store is on a path on which Mech refines Spec (declaration, assignment - also from a ?: and from a call -,
    compound assignment, ++/--, argument, signed 1-D and multi-dimensional elements, global scalar, direct struct member stores);
    values are aimed at the limits of the target's type."""
    nvars = rng.randint(3, 5)
    G, F, M = [], [], []
    cells = []          # (id, type)
    vid = [0]

    def fresh():
        vid[0] += 1
        return vid[0]

    def val(t):
        lo, hi = RANGES[t]
        k = rng.random()
        if k < 0.62:
            return rng.choice([lo, hi, lo + 1, hi - 1, 0, 1, -1 if lo < 0 else 2])
        if k < 0.93:
            return rng.randint(lo, hi)
        if k < 0.95 and lo == 0:
            return rng.choice([-1, -2, -300])           # clamped, the run goes on
        if k < 0.985:
            return rng.choice([lo - 1, hi + 1, lo - rng.randint(1, 300), hi + rng.randint(1, 300)])
        return rng.randint(-2**40, 2**40)

    def lit(v):
        return str(max(I64[0], min(I64[1], v)))

    carrier = fresh()
    M.append("(decl 0 0 long %d 0)" % carrier)
    for _ in range(rng.randint(0, 2)):
        t = rng.choice(NARROW)
        x = fresh()
        G.append("(G 0 %s %d () (%s))" % (t, x, lit(val(t))))
        cells.append((x, t))
    # a function with a narrow parameter type for the argument path
    pt = rng.choice(NARROW)
    pv = fresh()
    F.append("(F 1 long ((%d %s)) ((ret (bin + (v %d) 0))))" % (pv, pt, pv))
    arr = None
    if rng.random() < 0.7:
        at = rng.choice(["tiny", "short", "int", "long"])
        dims = [rng.randint(2, 4)] if rng.random() < 0.6 else [2, rng.randint(2, 3)]
        arr = (fresh(), at, dims)
        M.append("(arr 0 %s %d (%s) ())" % (at, arr[0], " ".join(map(str, dims))))
    for _ in range(nvars):
        t = rng.choice(NARROW)
        x = fresh()
        M.append("(decl 0 0 %s %d %s)" % (t, x, lit(val(t))))
        cells.append((x, t))
        M.append(_readback(x))
    if rng.random() < 0.5:
        # a plain struct whose narrow members are further cells (member j of struct variable x = cell 1000 + 8 * x + j): direct member
        # stores are range checked since fix a3f0b3d, so they take part in every kind of store below
        sx = fresh()
        flds = ["long"] + [rng.choice(NARROW) for _ in range(rng.randint(1, 3))]
        M.append("(struct 1 %d %s)" % (sx, " ".join(flds)))
        for j, t in enumerate(flds):
            if j:
                cells.append((1000 + 8 * sx + j, t))
    F.append("(F 2 long ((%d long)) ((ret (v %d))))" % (vid[0] + 1, vid[0] + 1))      # identity, for `x = f(e);` / `x = c ? f(e) : y;`
    vid[0] += 1
    for _ in range(rng.randint(4, 10)):
        x, t = rng.choice(cells)
        k = rng.random()
        if k < 0.12:
            M.append("(asg (v %d) %s)" % (x, lit(val(t))))
        elif k < 0.24:
            # x = c ? a : b;  (execute_ternary_assignment: the branch's inferred type is only a hint, the range of x decides)
            def branch():
                j = rng.random()
                if j < 0.45:
                    return lit(val(t))
                if j < 0.65:
                    return "(v %d)" % rng.choice(cells)[0]
                if j < 0.8:
                    return "(bin + (v %d) %s)" % (carrier, lit(val(t)))
                if j < 0.9:
                    return "(call 2 %s)" % lit(val(t))
                return "(bin %s (v %d) %d)" % (rng.choice(["<", "==", ">="]), rng.choice(cells)[0], rng.choice([0, 1, 100]))
            c = rng.choice(["(v %d)" % rng.choice(cells)[0], "(bin < (v %d) %d)" % (rng.choice(cells)[0], rng.choice([0, 1, 50])), "1", "0"])
            M.append("(asg (v %d) (cond %s %s %s))" % (x, c, branch(), branch()))
        elif k < 0.30:
            M.append("(asg (v %d) (call 2 %s))" % (x, lit(val(t))))
        elif k < 0.45:
            # from another cell: mostly one whose type is not wider than the target's
            lo, hi = RANGES[t]
            fits = [c for c in cells if RANGES[c[1]][0] >= lo and RANGES[c[1]][1] <= hi]
            y, _ = rng.choice(fits if fits and rng.random() < 0.8 else cells)
            M.append("(asg (v %d) (v %d))" % (x, y))
        elif k < 0.58:
            op = rng.choice(["+", "-", "*"])
            d = rng.choice([1, 1, 2, -1, -1, 3, 100, 255, 65535]) if op != "*" else rng.choice([1, 2, -1, -1, 3])
            M.append("(casg %s (v %d) %d)" % (op, x, d))
        elif k < 0.70:
            # ++/-- (range checked since fix 892a98c)
            M.append("(incdec %d %d (v %d))" % (rng.randint(0, 1), rng.randint(0, 1), x))
        elif k < 0.82:
            M.append("(asg (v %d) (call 1 %s))" % (carrier, lit(val(pt))))
            M.append(_readback(carrier))
        elif arr is not None:
            idx = [rng.randrange(n) for n in arr[2]]
            if len(idx) == 1 and rng.random() < 0.35:
                # a[i]++ / a[i]-- on a signed 1-D element (fix 1b2d709)
                M.append("(incdec %d %d (idx %d %d))" % (rng.randint(0, 1), rng.randint(0, 1), arr[0], idx[0]))
            else:
                # element store, multi-dimensional ones included (fix a6c628c)
                M.append("(asg (idx %d %s) %s)" % (arr[0], " ".join(map(str, idx)), lit(val(arr[1]))))
            M.append(_readback_elem(arr[0], idx))
        else:
            M.append("(asg (v %d) (bin + (v %d) %d))" % (x, x, rng.choice([1, -1, 127, -128, 32767])))
        M.append(_readback(x))
    return "(P (%s) (%s) (%s))" % (" ".join(G), " ".join(F), " ".join(M))


def mixed_try_program(rng):
    """A try-program (coq/C04/Try.v): typed cells - locals, globals, the narrow members of a plain struct, a signed local array, a signed
    global array - and 6-14 actions on them, about half of them under try / checked with values aimed just outside the target's range:
    x++ / --x on a cell, calls of setters / adders / bumpers of the globals, of a function with a narrow parameter, of a function with a
    narrow result, of a setter of a global array element.  After every action the touched cell is read back, at the end every cell.  Every
    store is on a path on which Mech refines Spec, so whatever is caught the reference transcript is the demanded one."""
    G, F, M = [], [], []
    vid = [0]

    def fresh():
        vid[0] += 1
        return vid[0]

    def edge(t, out_p):
        lo, hi = RANGES[t]
        k = rng.random()
        if k < out_p:
            c = [hi + 1, lo - 1, hi + rng.randint(1, 300), lo - rng.randint(1, 300), rng.randint(-2**40, 2**40)]
            x = rng.choice(c)
        elif k < out_p + 0.3:
            x = rng.choice([lo, hi, lo + 1, hi - 1, 0, 1])
        else:
            x = rng.randint(lo, hi)
        return max(I64[0] + 2, min(I64[1] - 2, x))

    gl = []            # global scalars (id, type)
    for _ in range(rng.randint(1, 3)):
        t = rng.choice(NARROW)
        x = fresh()
        G.append("(G 0 %s %d () (%d))" % (t, x, edge(t, 0)))
        gl.append((x, t))
    garr = None
    if rng.random() < 0.6:
        at = rng.choice(["tiny", "short", "int", "long"])
        dims = [rng.randint(2, 4)] if rng.random() < 0.6 else [2, rng.randint(2, 3)]
        garr = (fresh(), at, dims)
        G.append("(G 0 %s %d (%s) ())" % (at, garr[0], " ".join(map(str, dims))))
    # functions: 10+k set, 20+k add, 30+k bump up, 40+k bump down for global k; 1: narrow parameter; 2: narrow result; 3: element setter
    a7 = 90
    for k, (x, t) in enumerate(gl):
        F.append("(F %d long ((%d long)) ((asg (v %d) (v %d)) (ret 7)))" % (10 + k, a7, x, a7))
        F.append("(F %d long ((%d long)) ((casg + (v %d) (v %d)) (ret 7)))" % (20 + k, a7, x, a7))
        F.append("(F %d long () ((incdec %d 1 (v %d)) (ret 7)))" % (30 + k, rng.randint(0, 1), x))
        F.append("(F %d long () ((incdec %d 0 (v %d)) (ret 7)))" % (40 + k, rng.randint(0, 1), x))
    pt = rng.choice(NARROW)
    F.append("(F 1 long ((%d %s)) ((ret (bin + (v %d) 0))))" % (a7, pt, a7))
    rt = rng.choice(NARROW)
    F.append("(F 2 %s ((%d long)) ((ret (v %d))))" % (rt, a7, a7))
    if garr:
        nidx = len(garr[2])
        ps = " ".join("(%d long)" % (a7 + 1 + j) for j in range(nidx))
        ix = " ".join("(v %d)" % (a7 + 1 + j) for j in range(nidx))
        F.append("(F 3 long (%s (%d long)) ((asg (idx %d %s) (v %d)) (ret 7)))" % (ps, a7, garr[0], ix, a7))
    cells = list(gl)
    for _ in range(rng.randint(2, 4)):
        t = rng.choice(NARROW)
        x = fresh()
        M.append("(decl 0 0 %s %d %d)" % (t, x, edge(t, 0)))
        cells.append((x, t))
    if rng.random() < 0.5:
        sx = fresh()
        flds = ["long"] + [rng.choice(NARROW) for _ in range(rng.randint(1, 3))]
        M.append("(struct 1 %d %s)" % (sx, " ".join(flds)))
        for j, t in enumerate(flds):
            if j:
                cells.append((1000 + 8 * sx + j, t))
    larr = None
    if rng.random() < 0.5:
        at = rng.choice(["tiny", "short", "int", "long"])
        larr = (fresh(), at, rng.randint(2, 4))
        M.append("(arr 0 %s %d (%d) ())" % (at, larr[0], larr[2]))
    carrier = fresh()
    M.append("(decl 0 0 long %d 0)" % carrier)
    for _ in range(rng.randint(6, 14)):
        chk = rng.random() < 0.25
        k = rng.random()
        x, t = rng.choice(cells)
        lo, hi = RANGES[t]
        if k < 0.22:
            # try x++ / --x : first bring the cell next to a limit (a plain, accepted store), then step over it
            if rng.random() < 0.7:
                # (a 64-bit cell is not stepped over its upper limit: that is signed overflow, Undef in Ref)
                M.append("(asg (v %d) %d)" % (x, rng.choice([lo, lo + 1] if hi == I64[1] else [hi, hi - 1, lo, lo + 1])))
            for _ in range(rng.randint(1, 3)):
                M.append(_try(chk, "(incdec %d %d (v %d))" % (rng.randint(0, 1), rng.randint(0, 1), x)))
            M.append(_pr(_rd(x)))
        elif k < 0.30 and larr is not None:
            i = rng.randrange(larr[2])
            alo, ahi = RANGES[larr[1]]
            M.append("(asg (idx %d %d) %d)" % (larr[0], i, rng.choice([0, 1] if ahi == I64[1] else [ahi, alo, ahi - 1, 0])))
            for _ in range(rng.randint(1, 2)):
                M.append(_try(chk, "(incdec %d %d (idx %d %d))" % (rng.randint(0, 1), rng.randint(0, 1), larr[0], i)))
            M.append(_pr(*[_rde(larr[0], [j]) for j in range(larr[2])]))
        elif k < 0.55:
            # a store into a global through a callee, under try
            gk = rng.randrange(len(gl))
            gx, gt = gl[gk]
            j = rng.random()
            if j < 0.45:
                M.append(_try(chk, "(call %d %d)" % (10 + gk, edge(gt, 0.5))))
            elif j < 0.7:
                M.append(_try(chk, "(call %d %d)" % (20 + gk, rng.choice([1, -1, 2, 100, -100, 255, 65535, -65536, 2**31, -2**31]))))
            else:
                glo, ghi = RANGES[gt]
                if rng.random() < 0.6:
                    M.append("(asg (v %d) %d)" % (gx, rng.choice([0, 1] if ghi == I64[1] else [ghi, glo])))
                M.append(_try(chk, "(call %d)" % (rng.choice([30, 40]) + gk)))
            M.append(_pr(_rd(gx)))
        elif k < 0.63:
            M.append(_try(chk, "(call 1 %d)" % edge(pt, 0.5)))
        elif k < 0.71:
            M.append(_try(chk, "(call 2 %d)" % edge(rt, 0.5)))
        elif k < 0.79 and garr is not None:
            idx = [rng.randrange(n) for n in garr[2]]
            M.append(_try(chk, "(call 3 %s %d)" % (" ".join(map(str, idx)), edge(garr[1], 0.5))))
            M.append(_pr(_rde(garr[0], idx)))
        elif k < 0.88:
            # plain stores (not caught): accepted values mostly
            M.append("(asg (v %d) %d)" % (x, edge(t, 0.03)))
            M.append(_pr(_rd(x)))
        elif k < 0.94:
            M.append("(casg %s (v %d) %d)" % (rng.choice(["+", "-"]), x, rng.choice([0, 1, 1, 2])))
            M.append(_pr(_rd(x)))
        else:
            M.append("(asg (v %d) (call 1 %d))" % (carrier, edge(pt, 0.03)))
            M.append(_pr(_rd(carrier)))
    M.append(_pr(*[_rd(x) for x, _ in cells]))
    if garr:
        M.append(_pr(*[_rde(garr[0], [i] if len(garr[2]) == 1 else [i // garr[2][1], i % garr[2][1]])
                       for i in range(garr[2][0] * (garr[2][1] if len(garr[2]) > 1 else 1))]))
    return "(T (%s) (%s) (%s))" % (" ".join(G), " ".join(F), " ".join(M))


# ---------------------------------------------------------------------------------------------
# finding C04-ternary-assign-bool-branch (= C01-ternary-assign-bool-branch), avoided as narrowly as the defect is
# ---------------------------------------------------------------------------------------------
CMP_OPS = ("<", "<=", ">", ">=", "==", "!=")


def _head(e):
    return e[0] if isinstance(e, list) and e else None


def _low_rank(e):
    """may the type core/type_inference.cpp infers for `e` have numeric rank <= 1 (bool / char / tiny) or be unknown?
    (over-approximation: variables and elements count as low)"""
    h = _head(e)
    if h is None:
        return False                                    # a literal is int
    if h in ("v", "idx"):
        return True
    if h == "call":
        return False                                    # generated functions return long
    if h == "un":
        return True if e[1] == "!" else _low_rank(e[2])
    if h == "bin":
        return True if e[1] in CMP_OPS else (_low_rank(e[2]) and _low_rank(e[3]))
    if h in ("and", "or"):
        return _low_rank(e[1]) and _low_rank(e[2])
    if h == "cond":
        return _low_rank(e[2]) or _low_rank(e[3])
    return True


def _maybe_bool(e):
    """may `e` be inferred bool? comparisons and `!`; - and ~ keep the operand's type; an arithmetic / logical operator yields the
    common type of its operands, which is bool when both are bool or one is bool and the other has rank <= 1 / is unknown"""
    h = _head(e)
    if h is None or h in ("v", "idx", "call"):
        return False
    if h == "un":
        return True if e[1] == "!" else _maybe_bool(e[2])
    if h in ("bin", "and", "or"):
        if h == "bin" and e[1] in CMP_OPS:
            return True
        a, b = (e[2], e[3]) if h == "bin" else (e[1], e[2])
        return (_maybe_bool(a) and (_maybe_bool(b) or _low_rank(b))) or (_maybe_bool(b) and (_maybe_bool(a) or _low_rank(a)))
    if h == "cond":
        return _maybe_bool(e[2]) or _maybe_bool(e[3])
    return True


def _zero_one(e):
    h = _head(e)
    if h is None:
        return e in ("0", "1")
    if h == "un":
        return e[1] == "!"
    if h == "bin":
        return e[1] in CMP_OPS
    if h in ("and", "or"):
        return True
    if h == "cond":
        return _zero_one(e[2]) and _zero_one(e[3])
    return False


def bool_branch_risk(e):
    """a branch of a top-level ?: whose value the bool normalisation of assign_variable can change"""
    return _maybe_bool(e) and not _zero_one(e)


def narrow_top_ternary(sexpr):
    """`x = c ? a : b;` is left as it is unless a branch may be inferred bool with a value other than 0 / 1 (then: `x = (c ? a : b) + 0;`).
    -> (sexpr, number of ternary assignments kept, number wrapped)"""
    import langrun
    tree = langrun.parse(sexpr)
    cnt = [0, 0]

    def walk(st):
        if not isinstance(st, list) or not st:
            return
        h = st[0]
        if h == "asg" and _head(st[1]) == "v" and _head(st[2]) == "cond":
            if bool_branch_risk(st[2][2]) or bool_branch_risk(st[2][3]):
                st[2] = ["bin", "+", st[2], "0"]
                cnt[1] += 1
            else:
                cnt[0] += 1
            return
        if h in ("if",):
            for x in st[2] + st[3]:
                walk(x)
        elif h == "while":
            for x in st[2]:
                walk(x)
        elif h == "for":
            for x in st[1] + st[3] + st[4]:
                walk(x)
        elif h == "block":
            for x in st[1:]:
                walk(x)
    for f in tree[2]:
        for x in f[4]:
            walk(x)
    for x in tree[3]:
        walk(x)
    return langrun.show(tree), cnt[0], cnt[1]
