"""C04 - generator of one-store CbCore programs (S-expressions, grammar in ocaml/lang_driver.ml).

matrix(rng): every (integer type) x (store path) x (boundary value kind) combination, one checked
store per program. The stored cell is read back and printed FIRST, then its neighbours (which must
stay 0), so a kept / wrapped / clamped value is visible in stdout and a rejected store in the exit
class. Each case carries the query that asks the Mech model (bin/c04_model mech) what today's code
does with exactly that store.
"""
import gen_core

TYPES = ["tiny", "short", "int", "long", "char", "utiny", "ushort", "uint", "ulong"]   # `unsigned char` is rejected by the parser (probed separately)
RANGES = {t: gen_core.RANGES[t] for t in TYPES}
I64 = (-2**63, 2**63 - 1)

# store paths; the tag after ':' is the way the value reaches the store
PATHS = [
    "decl:lit", "decl:var", "decl:expr", "for-init:lit",
    "assign:lit", "assign:var", "assign:expr",
    "compound:add", "compound:sub", "compound:mul",
    "incdec-var:pre", "incdec-var:post",
    "incdec-elem:pre", "incdec-elem:post",
    "arg:lit", "arg:var", "arg:default",
    "return:var", "return:expr",
    "elem1:lit", "elem1:var", "elem1-compound:add",
    "elemN:lit2", "elemN:var2", "elemN:lit3",
    "literal1:lit", "literal1:var", "literalN:lit",
    "global:scalar", "global:array",
    "static:lit",
    "from-elemN:decl", "from-elemN:assign", "from-elemN:return",
]
# matrix path -> path of the Mech model (coq/C04/Model.v [path])
MECH_PATH = {
    "decl": "decl", "for-init": "decl", "assign": "assign", "compound": "compound", "incdec-var": "incdec-var",
    "incdec-elem": "incdec-elem1", "arg": "arg", "return": "return", "elem1": "elem1", "elem1-compound": "elem1-compound",
    "elemN": "elemN", "literal1": "lit1", "literalN": "litN", "global:scalar": "global-scalar", "global:array": "global-arr",
    "static": "static", "from-elemN:decl": "decl", "from-elemN:assign": "assign-from-elemN", "from-elemN:return": "return-from-elemN",
}

KINDS = ["min-1", "min", "min+1", "-1", "0", "1", "max-1", "max", "max+1", "rand-in", "rand-above", "rand-below"]


def values_for(t, rng):
    lo, hi = RANGES[t]
    vs = {"min-1": lo - 1, "min": lo, "min+1": lo + 1, "-1": -1, "0": 0, "1": 1,
          "max-1": hi - 1, "max": hi, "max+1": hi + 1,
          "rand-in": rng.randint(lo, hi)}
    if hi < I64[1]:
        vs["rand-above"] = rng.randint(hi + 1, min(I64[1], (hi + 1) * rng.choice([2, 256, 65536, 2**20])))
    else:
        vs["rand-above"] = None
    if lo > I64[0]:
        vs["rand-below"] = rng.randint(max(I64[0], (lo - 1) * rng.choice([2, 256, 65536, 2**20]) - 5), lo - 1)
    else:
        vs["rand-below"] = None
    return vs


def in64(v):
    return I64[0] <= v <= I64[1]


def _readback(x):
    # `+ 0` so that char-typed cells are printed as numbers by println on both sides
    return "(print 1 (bin + (v %d) 0))" % x


def _readback_elem(a, idx):
    # the element is the RIGHT operand: a negative multi-dimensional or char element as the left operand
    # of a binary operator was taken for a pointer and crashed the interpreter (repaired by 7c216d9; kept, harmless)
    return "(print 1 (bin + 0 (idx %d %s)))" % (a, " ".join(map(str, idx)))


def split_sum(v, rng):
    """a + b = v with both operands and the sum inside int64"""
    for _ in range(20):
        b = rng.choice([0, 1, -1, 2, -2, 7, -7, 100, -100])
        a = v - b
        if in64(a):
            return a, b
    return v, 0


def compound_operands(how, t, v, rng, nonneg_start=False):
    """start value (inside the type's range), operator, operand so that start op operand = v exactly."""
    lo, hi = RANGES[t]
    if nonneg_start:
        lo = max(lo, 0)
    cands = [1, 2, 3, 10]
    rng.shuffle(cands)
    if how == "add":
        for d in cands:
            for start, op, operand in ((v - d, "+", d), (v + d, "+", -d)):
                if lo <= start <= hi:
                    return start, op, operand
        return None
    if how == "sub":
        for d in cands:
            for start, op, operand in ((v + d, "-", d), (v - d, "-", -d)):
                if lo <= start <= hi:
                    return start, op, operand
        return None
    if how == "mul":
        for d in (2, 3, -1, -2, 1):
            if v % d == 0 and lo <= v // d <= hi:
                return v // d, "*", d
        return None
    raise ValueError(how)


def incdec_start(t, v, rng):
    """start value inside the range from which one ++ / -- reaches v"""
    lo, hi = RANGES[t]
    opts = []
    if lo <= v - 1 <= hi:
        opts.append((v - 1, 1))
    if lo <= v + 1 <= hi:
        opts.append((v + 1, 0))
    if not opts:
        return None
    return rng.choice(opts)


def build(path, t, v, rng):
    """-> (sexpr, mech_query, extra) for one program storing `v` into a `t` cell along `path`:
    the program prints the target cell first and then len(extra) neighbour cells whose values must be
    `extra`; mech_query is the line for `c04_model mech`. None when the combination cannot be
    expressed (value not representable in int64 / start value would be outside the type)."""
    p, how = path.split(":")
    if not in64(v):
        # a literal outside int64 cannot be written as a Cb token and cannot be the result of
        # well-formed 64-bit arithmetic (Ref: Undef)
        return None
    G, F, M = [], [], []
    W = "long"       # carrier type for the value on its way to the store
    extra = []
    mpath = MECH_PATH.get(path) or MECH_PATH[p]
    query = "store %s %s %d" % (mpath, t, v)
    if p in ("decl", "for-init"):
        if p == "for-init":
            M = ["(for ((decl 0 0 %s 1 %d)) 1 ((asg (v 1) (bin + (v 1) 1))) ((print 1 (bin + (v 1) 0)) (break)))" % (t, v)]
        else:
            if how == "lit":
                M = ["(decl 0 0 %s 1 %d)" % (t, v)]
            elif how == "var":
                M = ["(decl 0 0 %s 2 %d)" % (W, v), "(decl 0 0 %s 1 (v 2))" % t]
            else:
                a, b = split_sum(v, rng)
                M = ["(decl 0 0 %s 2 %d)" % (W, a), "(decl 0 0 %s 1 (bin + (v 2) %d))" % (t, b)]
            M.append(_readback(1))
    elif p == "assign":
        M = ["(decl 0 0 %s 1 %d)" % (t, rng.choice([0, 1]))]
        if how == "lit":
            M.append("(asg (v 1) %d)" % v)
        elif how == "var":
            M = ["(decl 0 0 %s 2 %d)" % (W, v)] + M + ["(asg (v 1) (v 2))"]
        else:
            a, b = split_sum(v, rng)
            M = ["(decl 0 0 %s 2 %d)" % (W, a)] + M + ["(asg (v 1) (bin + (v 2) %d))" % b]
        M.append(_readback(1))
    elif p == "compound":
        r = compound_operands(how, t, v, rng)
        if r is None:
            return None
        start, op, operand = r
        M = ["(decl 0 0 %s 1 %d)" % (t, start), "(casg %s (v 1) %d)" % (op, operand), _readback(1)]
    elif p == "incdec-var":
        r = incdec_start(t, v, rng)
        if r is None:
            return None
        start, inc = r
        M = ["(decl 0 0 %s 1 %d)" % (t, start), "(incdec %d %d (v 1))" % (1 if how == "pre" else 0, inc), _readback(1)]
    elif p == "incdec-elem":
        r = incdec_start(t, v, rng)
        if r is None:
            return None
        start, inc = r
        M = ["(arr 0 %s 1 (3) (0 %d 0))" % (t, start), "(incdec %d %d (idx 1 1))" % (1 if how == "pre" else 0, inc),
             _readback_elem(1, [1]), _readback_elem(1, [0]), _readback_elem(1, [2])]
        extra = [0, 0]
        query = "update %s %s %d %d" % (mpath, t, start, 1 if inc else -1)
    elif p == "arg":
        if how == "default":
            F = ["(F 1 long ((1 long) (2 %s %d)) ((ret (bin + (v 2) (v 1)))))" % (t, v)]
            M = ["(print 1 (call 1 0))"]
        else:
            F = ["(F 1 long ((1 %s)) ((ret (bin + (v 1) 0))))" % t]
            if how == "lit":
                M = ["(print 1 (call 1 %d))" % v]
            else:
                M = ["(decl 0 0 %s 2 %d)" % (W, v), "(print 1 (call 1 (v 2)))"]
    elif p == "return":
        if how == "var":
            F = ["(F 1 %s ((1 long)) ((ret (v 1))))" % t]
            M = ["(decl 0 0 long 3 (call 1 %d))" % v, _readback(3)]
        else:
            a, b = split_sum(v, rng)
            F = ["(F 1 %s ((1 long)) ((ret (bin + (v 1) %d))))" % (t, b)]
            M = ["(decl 0 0 long 3 (call 1 %d))" % a, _readback(3)]
    elif p == "elem1":
        n = rng.randint(2, 4)
        k = rng.randrange(n)
        M = ["(arr 0 %s 1 (%d) ())" % (t, n)]
        if how == "lit":
            M.append("(asg (idx 1 %d) %d)" % (k, v))
        else:
            M = ["(decl 0 0 %s 2 %d)" % (W, v)] + M + ["(asg (idx 1 %d) (v 2))" % k]
        M += [_readback_elem(1, [k])] + [_readback_elem(1, [j]) for j in range(n) if j != k]
        extra = [0] * (n - 1)
    elif p == "elem1-compound":
        # (a negative char element as the left operand of + crashed the interpreter before 7c216d9: start >= 0 for char)
        r = compound_operands("add", t, v, rng, nonneg_start=(t == "char"))
        if r is None:
            return None
        start, op, operand = r
        M = ["(arr 0 %s 1 (3) (0 %d 0))" % (t, start), "(casg %s (idx 1 1) %d)" % (op, operand),
             _readback_elem(1, [1]), _readback_elem(1, [0]), _readback_elem(1, [2])]
        extra = [0, 0]
        query = "update %s %s %d %d" % (mpath, t, start, operand)
    elif p == "elemN":
        dims = [2, 3] if how.endswith("2") else [2, 2, 2]
        idx = [rng.randrange(d) for d in dims]
        M = ["(arr 0 %s 1 (%s) ())" % (t, " ".join(map(str, dims)))]
        if how.startswith("lit"):
            M.append("(asg (idx 1 %s) %d)" % (" ".join(map(str, idx)), v))
        else:
            M = ["(decl 0 0 %s 2 %d)" % (W, v)] + M + ["(asg (idx 1 %s) (v 2))" % " ".join(map(str, idx))]
        other = [(idx[0] + 1) % dims[0]] + idx[1:]
        M += [_readback_elem(1, idx), _readback_elem(1, other)]
        extra = [0]
    elif p == "literal1":
        n = 3
        k = rng.randrange(n)
        elts = ["0"] * n
        if how == "lit":
            elts[k] = str(v)
            M = ["(arr 0 %s 1 (%d) (%s))" % (t, n, " ".join(elts))]
        else:
            elts[k] = "(v 2)"
            M = ["(decl 0 0 %s 2 %d)" % (W, v), "(arr 0 %s 1 (%d) (%s))" % (t, n, " ".join(elts))]
        M += [_readback_elem(1, [k])] + [_readback_elem(1, [j]) for j in range(n) if j != k]
        extra = [0] * (n - 1)
    elif p == "literalN":
        elts = ["0"] * 4
        k = rng.randrange(4)
        elts[k] = str(v)
        o = (k + 1) % 4
        M = ["(arr 0 %s 1 (2 2) (%s))" % (t, " ".join(elts)), _readback_elem(1, [k // 2, k % 2]), _readback_elem(1, [o // 2, o % 2])]
        extra = [0]
    elif p == "global":
        if how == "scalar":
            G = ["(G 0 %s 1 () (%d))" % (t, v)]
            M = [_readback(1)]
        else:
            elts = ["0"] * 3
            k = rng.randrange(3)
            elts[k] = str(v)
            G = ["(G 0 %s 1 (3) (%s))" % (t, " ".join(elts))]
            M = [_readback_elem(1, [k])] + [_readback_elem(1, [j]) for j in range(3) if j != k]
            extra = [0, 0]
    elif p == "static":
        F = ["(F 1 long () ((decl 0 1 %s 1 %d) (ret (bin + (v 1) 0))))" % (t, v)]
        M = ["(print 1 (call 1))"]
    elif p == "from-elemN":
        # the stored VALUE is a bare multi-dimensional element (long carrier array)
        M0 = ["(arr 0 long 2 (2 2) (0 0 0 %d))" % v]
        if how == "decl":
            M = M0 + ["(decl 0 0 %s 1 (idx 2 1 1))" % t, _readback(1)]
        elif how == "assign":
            M = M0 + ["(decl 0 0 %s 1 0)" % t, "(asg (v 1) (idx 2 1 1))", _readback(1)]
        else:
            G = ["(G 0 long 2 (2 2) (0 0 0 %d))" % v]
            F = ["(F 1 %s () ((ret (idx 2 1 1))))" % t]
            M = ["(decl 0 0 long 3 (call 1))", _readback(3)]
    else:
        raise ValueError(path)
    return "(P (%s) (%s) (%s))" % (" ".join(G), " ".join(F), " ".join(M)), query, extra


def matrix(rng, types=None, paths=None):
    """-> list of (sexpr, meta) with meta = {path, type, kind, value, query, extra}"""
    out = []
    for t in (types or TYPES):
        vals = values_for(t, rng)
        for path in (paths or PATHS):
            for kind in KINDS:
                v = vals.get(kind)
                if v is None:
                    continue
                r = build(path, t, v, rng)
                if r is None:
                    continue
                sx, query, extra = r
                out.append((sx, {"path": path, "type": t, "kind": kind, "value": v, "query": query, "extra": extra}))
    return out


# ---------------------------------------------------------------------------------------------
# random programs mixing the store paths (inside the fragment where today's code is correct)
# ---------------------------------------------------------------------------------------------
NARROW = ["tiny", "short", "int", "char", "utiny", "ushort", "uint", "ulong", "long"]


def mixed_program(rng):
    """A straight-line program of 4-10 stores over 3-5 typed cells; every store is on a path on
    which Mech refines Spec (declaration, assignment, compound assignment, ++/--, argument, signed 1-D and
    multi-dimensional elements, global scalar); values are aimed at the limits of the target's type."""
    nvars = rng.randint(3, 5)
    G, F, M = [], [], []
    cells = []          # (id, type)
    vid = [0]

    def fresh():
        vid[0] += 1
        return vid[0]

    def val(t):
        lo, hi = RANGES[t]
        k = rng.random()
        if k < 0.62:
            return rng.choice([lo, hi, lo + 1, hi - 1, 0, 1, -1 if lo < 0 else 2])
        if k < 0.93:
            return rng.randint(lo, hi)
        if k < 0.95 and lo == 0:
            return rng.choice([-1, -2, -300])           # clamped, the run goes on
        if k < 0.985:
            return rng.choice([lo - 1, hi + 1, lo - rng.randint(1, 300), hi + rng.randint(1, 300)])
        return rng.randint(-2**40, 2**40)

    def lit(v):
        return str(max(I64[0], min(I64[1], v)))

    carrier = fresh()
    M.append("(decl 0 0 long %d 0)" % carrier)
    for _ in range(rng.randint(0, 2)):
        t = rng.choice(NARROW)
        x = fresh()
        G.append("(G 0 %s %d () (%s))" % (t, x, lit(val(t))))
        cells.append((x, t))
    # a function with a narrow parameter type for the argument path
    pt = rng.choice(NARROW)
    pv = fresh()
    F.append("(F 1 long ((%d %s)) ((ret (bin + (v %d) 0))))" % (pv, pt, pv))
    arr = None
    if rng.random() < 0.7:
        at = rng.choice(["tiny", "short", "int", "long"])
        dims = [rng.randint(2, 4)] if rng.random() < 0.6 else [2, rng.randint(2, 3)]
        arr = (fresh(), at, dims)
        M.append("(arr 0 %s %d (%s) ())" % (at, arr[0], " ".join(map(str, dims))))
    for _ in range(nvars):
        t = rng.choice(NARROW)
        x = fresh()
        M.append("(decl 0 0 %s %d %s)" % (t, x, lit(val(t))))
        cells.append((x, t))
        M.append(_readback(x))
    for _ in range(rng.randint(4, 10)):
        x, t = rng.choice(cells)
        k = rng.random()
        if k < 0.3:
            M.append("(asg (v %d) %s)" % (x, lit(val(t))))
        elif k < 0.45:
            # from another cell: mostly one whose type is not wider than the target's
            lo, hi = RANGES[t]
            fits = [c for c in cells if RANGES[c[1]][0] >= lo and RANGES[c[1]][1] <= hi]
            y, _ = rng.choice(fits if fits and rng.random() < 0.8 else cells)
            M.append("(asg (v %d) (v %d))" % (x, y))
        elif k < 0.58:
            op = rng.choice(["+", "-", "*"])
            d = rng.choice([1, 1, 2, -1, -1, 3, 100, 255, 65535]) if op != "*" else rng.choice([1, 2, -1, -1, 3])
            M.append("(casg %s (v %d) %d)" % (op, x, d))
        elif k < 0.70:
            # ++/-- (range checked since fix 892a98c)
            M.append("(incdec %d %d (v %d))" % (rng.randint(0, 1), rng.randint(0, 1), x))
        elif k < 0.82:
            M.append("(asg (v %d) (call 1 %s))" % (carrier, lit(val(pt))))
            M.append(_readback(carrier))
        elif arr is not None:
            idx = [rng.randrange(n) for n in arr[2]]
            if len(idx) == 1 and rng.random() < 0.35:
                # a[i]++ / a[i]-- on a signed 1-D element (fix 1b2d709)
                M.append("(incdec %d %d (idx %d %d))" % (rng.randint(0, 1), rng.randint(0, 1), arr[0], idx[0]))
            else:
                # element store, multi-dimensional ones included (fix a6c628c)
                M.append("(asg (idx %d %s) %s)" % (arr[0], " ".join(map(str, idx)), lit(val(arr[1]))))
            M.append(_readback_elem(arr[0], idx))
        else:
            M.append("(asg (v %d) (bin + (v %d) %d))" % (x, x, rng.choice([1, -1, 127, -128, 32767])))
        M.append(_readback(x))
    return "(P (%s) (%s) (%s))" % (" ".join(G), " ".join(F), " ".join(M))
