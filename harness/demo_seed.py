#!/usr/bin/env python3
"""demo_seed.py <name> [file.cb]: run seeded/<name>/demo.cb (or the given file of that directory) on a build of /repo and on a build of
/repo + seeded/<name>/patch.diff (both through common.build_impl, cached) and print both outputs."""
import os, shutil, subprocess, sys, tempfile
name = sys.argv[1]
fn = sys.argv[2] if len(sys.argv) > 2 else "demo.cb"
V = os.path.dirname(os.path.dirname(os.path.abspath(__file__)))
sd = os.path.join(V, "seeded", name)
d = tempfile.mkdtemp(prefix="cbverif-demo-", dir="/var/tmp")
try:
    repo = os.path.join(d, "repo")
    subprocess.run(["rsync", "-a", "--exclude", ".git", "--exclude", "*.o", "--exclude", "/main", "--exclude", "/tests", "/repo/", repo + "/"], check=True)
    subprocess.run(["patch", "-p1", "-s", "-d", repo, "-i", os.path.join(sd, "patch.diff")], check=True)
    out = {}
    for tag, r in (("head", "/repo"), ("changed", repo)):
        code = "import sys; sys.path.insert(0, %r); import common; print(common.build_impl('plain'))" % os.path.join(V, "harness")
        p = subprocess.run(["python3", "-c", code], env=dict(os.environ, CB_REPO=r), capture_output=True, text=True)
        impl = p.stdout.strip().split("\n")[-1]
        q = subprocess.run("cd %s && timeout 20 %s/main %s 2>&1" % (sd, impl, fn), shell=True, capture_output=True, text=True)
        out[tag] = "rc=%d\n%s" % (q.returncode, q.stdout)
    print("=== head\n" + out["head"][:3000])
    print("=== changed\n" + out["changed"][:3000])
    print("DIFFERS" if out["head"] != out["changed"] else "SAME")
finally:
    shutil.rmtree(d, ignore_errors=True)
