#!/bin/bash
# try_patch.sh <patch file> <Cnn> [tier] : run ./check Cnn against a scratch copy of /repo with the patch applied (never touches /repo)
set -u
P="$(readlink -f "$1")"; C="$2"; T="${3:-quick}"
D="$(mktemp -d /var/tmp/cbverif-try-XXXXXX)"
trap 'rm -rf "$D"' EXIT
rsync -a --exclude .git --exclude '*.o' --exclude /main --exclude /tests /repo/ "$D/repo/"
patch -p1 -s -d "$D/repo" -i "$P" || { echo PATCH-FAILED; exit 2; }
cd "$(dirname "$0")/.."
CB_REPO="$D/repo" CB_EVID_DIR="$D/ev" CB_REPLAY_DIR="$D/rp" timeout 3000 ./check "$C" --tier "$T" 2>&1 | grep -v '^KNOWN-FINDING' | tail -${TAILN:-4} | cut -c1-600
echo "rc=${PIPESTATUS[0]}"
