#!/bin/bash
# Runs the repository's own test suite on a scratch copy of /repo's working tree with the
# CB_VERIF guard OFF (the repository's unmodified flags). Prints the suite output; exit status is make's.
set -u
S="$(mktemp -d /var/tmp/cbverif-baseline-XXXXXX)"
trap 'rm -rf "$S"' EXIT
rsync -a --exclude '*.o' --exclude '/main' --exclude '.git' /repo/ "$S/"
cd "$S" || exit 2
make -j16 all >"$S/build.log" 2>&1 || { tail -50 "$S/build.log"; echo "BUILD FAILED"; exit 2; }
make test 2>&1 | tee "$S/test.log" | grep -E "Running: |\[[0-9]/4\]|passed|failed|PASS|FAIL" | tail -80
rc=${PIPESTATUS[0]}
echo "make test exit status: $rc"
exit $rc
