(* Spike: the conditional-inclusion stack machine of preprocessor.cpp refines a tree semantics. *)
From Coq Require Import List Arith Bool Lia.
Import ListNotations.

Definition name := nat.
Definition defs := list name.                 (* macro table: only definedness matters here *)
Definition defined (n : name) (d : defs) : bool := existsb (Nat.eqb n) d.
Definition undef (n : name) (d : defs) : defs := filter (fun m => negb (Nat.eqb n m)) d.

(* ---------- source lines after classification (processDirective) ---------- *)
Inductive dline :=
| LText (s : nat) | LIfdef (n : name) | LIfndef (n : name) | LElif (n : name)
| LElse | LEndif | LDefine (n : name) | LUndef (n : name).

(* ---------- Mech: ConditionalState stack, transcribed from handleIfdef/.../shouldSkipOutput ---------- *)
Record cstate := { met : bool; else_seen : bool; taken : bool }.
Record pstate := { stack : list cstate; dtab : defs; out : list nat; errors : nat }.

Definition skipping (st : list cstate) : bool := existsb (fun c => negb (met c)) st.
Definition err (p : pstate) : pstate :=
  {| stack := stack p; dtab := dtab p; out := out p; errors := S (errors p) |}.

Definition step (p : pstate) (l : dline) : pstate :=
  match l with
  | LIfdef n => let b := defined n (dtab p) in
      {| stack := {| met := b; else_seen := false; taken := b |} :: stack p;
         dtab := dtab p; out := out p; errors := errors p |}
  | LIfndef n => let b := negb (defined n (dtab p)) in
      {| stack := {| met := b; else_seen := false; taken := b |} :: stack p;
         dtab := dtab p; out := out p; errors := errors p |}
  | LElif n =>
      match stack p with
      | [] => err p
      | c :: r =>
          if else_seen c then err p
          else if taken c then
            {| stack := {| met := false; else_seen := false; taken := true |} :: r;
               dtab := dtab p; out := out p; errors := errors p |}
          else let b := defined n (dtab p) in
            {| stack := {| met := b; else_seen := false; taken := b |} :: r;
               dtab := dtab p; out := out p; errors := errors p |}
      end
  | LElse =>
      match stack p with
      | [] => err p
      | c :: r =>
          if else_seen c then err p
          else {| stack := {| met := negb (taken c); else_seen := true; taken := taken c |} :: r;
                  dtab := dtab p; out := out p; errors := errors p |}
      end
  | LEndif =>
      match stack p with
      | [] => err p
      | _ :: r => {| stack := r; dtab := dtab p; out := out p; errors := errors p |}
      end
  | LDefine n =>
      if skipping (stack p) then p
      else {| stack := stack p; dtab := n :: dtab p; out := out p; errors := errors p |}
  | LUndef n =>
      if skipping (stack p) then p
      else {| stack := stack p; dtab := undef n (dtab p); out := out p; errors := errors p |}
  | LText s =>
      if skipping (stack p) then p
      else {| stack := stack p; dtab := dtab p; out := out p ++ [s]; errors := errors p |}
  end.

Definition run (ls : list dline) (p : pstate) : pstate := fold_left step ls p.

(* ---------- Spec: a tree of nested conditionals ---------- *)
Inductive cond := CDef (n : name) | CNdef (n : name).
Inductive item :=
| IText (s : nat) | IDefine (n : name) | IUndef (n : name)
| IGroup (c : cond) (body : items) (el : elifs) (els : oitems)
with items := INil | ICons (i : item) (r : items)
with elifs := ENil | ECons (n : name) (b : items) (r : elifs)
with oitems := ONone | OSome (b : items).

Scheme item_mind := Induction for item Sort Prop
with items_mind := Induction for items Sort Prop
with elifs_mind := Induction for elifs Sort Prop
with oitems_mind := Induction for oitems Sort Prop.
Combined Scheme tree_mind from item_mind, items_mind, elifs_mind, oitems_mind.

Definition holds (c : cond) (d : defs) : bool :=
  match c with CDef n => defined n d | CNdef n => negb (defined n d) end.

(* sem: an inactive region emits nothing and leaves the table alone; in a group the first
   branch whose condition holds is the only active one; #else is active iff none was. *)
Fixpoint sem_item (active : bool) (d : defs) (it : item) : defs * list nat :=
  match it with
  | IText s => (d, if active then [s] else [])
  | IDefine n => (if active then n :: d else d, [])
  | IUndef n => (if active then undef n d else d, [])
  | IGroup c body el els =>
      let b0 := holds c d in
      let r0 := sem_items (active && b0) d body in
      let re := sem_elifs active b0 (fst r0) el in
      let rl := sem_oitems (active && negb (fst (fst re))) (snd (fst re)) els in
      (fst rl, snd r0 ++ snd re ++ snd rl)
  end
with sem_items (active : bool) (d : defs) (its : items) : defs * list nat :=
  match its with
  | INil => (d, [])
  | ICons i r => let r1 := sem_item active d i in
                 let r2 := sem_items active (fst r1) r in (fst r2, snd r1 ++ snd r2)
  end
with sem_elifs (active tk : bool) (d : defs) (es : elifs) : (bool * defs) * list nat :=
  match es with
  | ENil => ((tk, d), [])
  | ECons n b r =>
      let bb := negb tk && defined n d in
      let r1 := sem_items (active && bb) d b in
      let r2 := sem_elifs active (tk || bb) (fst r1) r in
      (fst r2, snd r1 ++ snd r2)
  end
with sem_oitems (active : bool) (d : defs) (o : oitems) : defs * list nat :=
  match o with ONone => (d, []) | OSome b => sem_items active d b end.

(* ---------- flattening a tree back to directive lines ---------- *)
Fixpoint fl_item (it : item) : list dline :=
  match it with
  | IText s => [LText s] | IDefine n => [LDefine n] | IUndef n => [LUndef n]
  | IGroup c body el els =>
      (match c with CDef n => LIfdef n | CNdef n => LIfndef n end)
        :: fl_items body ++ fl_elifs el ++ fl_oitems els ++ [LEndif]
  end
with fl_items (its : items) : list dline :=
  match its with INil => [] | ICons i r => fl_item i ++ fl_items r end
with fl_elifs (es : elifs) : list dline :=
  match es with ENil => [] | ECons n b r => LElif n :: fl_items b ++ fl_elifs r end
with fl_oitems (o : oitems) : list dline :=
  match o with ONone => [] | OSome b => LElse :: fl_items b end.

(* ---------- refinement ---------- *)
Definition mk st d o e := {| stack := st; dtab := d; out := o; errors := e |}.
Definition act (st : list cstate) : bool := negb (skipping st).

Lemma run_app a b p : run (a ++ b) p = run b (run a p).
Proof. unfold run. apply fold_left_app. Qed.

Lemma act_cons c st : act (c :: st) = met c && act st.
Proof. unfold act, skipping. cbn [existsb]. destruct (met c); reflexivity. Qed.

Definition P_item (it : item) := forall st d o e,
  run (fl_item it) (mk st d o e) =
  mk st (fst (sem_item (act st) d it)) (o ++ snd (sem_item (act st) d it)) e.
Definition P_items (its : items) := forall st d o e,
  run (fl_items its) (mk st d o e) =
  mk st (fst (sem_items (act st) d its)) (o ++ snd (sem_items (act st) d its)) e.
Definition P_elifs (es : elifs) := forall c st d o e, else_seen c = false ->
  exists m, run (fl_elifs es) (mk (c :: st) d o e) =
  mk ({| met := m; else_seen := false; taken := fst (fst (sem_elifs (act st) (taken c) d es)) |} :: st)
     (snd (fst (sem_elifs (act st) (taken c) d es)))
     (o ++ snd (sem_elifs (act st) (taken c) d es)) e.
Definition P_oitems (ob : oitems) := forall c st d o e, else_seen c = false ->
  exists c', run (fl_oitems ob) (mk (c :: st) d o e) =
  mk (c' :: st) (fst (sem_oitems (act st && negb (taken c)) d ob))
     (o ++ snd (sem_oitems (act st && negb (taken c)) d ob)) e.

Lemma refinement :
  (forall it, P_item it) /\ (forall its, P_items its) /\
  (forall es, P_elifs es) /\ (forall ob, P_oitems ob).
Proof.
  apply tree_mind.
  - (* IText *) intros s st d o e. cbn [fl_item run fold_left step stack mk]. unfold act.
    destruct (skipping st); cbn; [rewrite app_nil_r|]; reflexivity.
  - (* IDefine *) intros n st d o e. cbn [fl_item run fold_left step stack mk]. unfold act.
    destruct (skipping st); cbn; rewrite app_nil_r; reflexivity.
  - (* IUndef *) intros n st d o e. cbn [fl_item run fold_left step stack mk]. unfold act.
    destruct (skipping st); cbn; rewrite app_nil_r; reflexivity.
  - (* IGroup *) intros c body IHb el IHe els IHo st d o e.
    cbn [fl_item sem_item].
    set (b0 := holds c d).
    set (c0 := {| met := b0; else_seen := false; taken := b0 |}).
    assert (Hpush : step (mk st d o e) (match c with CDef n => LIfdef n | CNdef n => LIfndef n end)
                    = mk (c0 :: st) d o e).
    { destruct c; reflexivity. }
    change (run (?x :: ?l) ?p) with (run l (step p x)). rewrite Hpush.
    rewrite !run_app. rewrite (IHb (c0 :: st) d o e).
    rewrite act_cons. cbn [met c0]. rewrite (andb_comm b0 (act st)).
    set (r0 := sem_items (act st && b0) d body).
    destruct (IHe c0 st (fst r0) (o ++ snd r0) e eq_refl) as [m Hm]. rewrite Hm. cbn [taken c0].
    set (re := sem_elifs (act st) b0 (fst r0) el).
    set (c1 := {| met := m; else_seen := false; taken := fst (fst re) |}).
    destruct (IHo c1 st (snd (fst re)) ((o ++ snd r0) ++ snd re) e eq_refl) as [c' Hc']. rewrite Hc'.
    cbn [taken c1]. cbn [run fold_left step stack mk].
    unfold mk. f_equal. rewrite <- !app_assoc. reflexivity.
  - (* INil *) intros st d o e. cbn. rewrite app_nil_r. reflexivity.
  - (* ICons *) intros i IHi r IHr st d o e. cbn [fl_items sem_items].
    rewrite run_app, IHi, IHr. cbn [fst snd]. rewrite <- app_assoc. reflexivity.
  - (* ENil *) intros c st d o e Hc. exists (met c). cbn. rewrite app_nil_r.
    destruct c as [m es tk]. cbn in Hc. subst es. reflexivity.
  - (* ECons *) intros n b IHb r IHr c st d o e Hc. cbn [fl_elifs sem_elifs].
    change (run (?x :: ?l) ?p) with (run l (step p x)).
    set (bb := negb (taken c) && defined n d).
    set (c' := {| met := bb; else_seen := false; taken := taken c || bb |}).
    assert (Hs : step (mk (c :: st) d o e) (LElif n) = mk (c' :: st) d o e).
    { cbn [step stack mk]. rewrite Hc. unfold c', bb.
      destruct (taken c); cbn; reflexivity. }
    rewrite Hs, run_app, (IHb (c' :: st) d o e), act_cons. cbn [met c']. rewrite (andb_comm bb (act st)).
    set (r1 := sem_items (act st && bb) d b).
    destruct (IHr c' st (fst r1) (o ++ snd r1) e eq_refl) as [m Hm]. exists m. rewrite Hm.
    cbn [taken c' fst snd]. rewrite <- app_assoc. reflexivity.
  - (* ONone *) intros c st d o e Hc. exists c. cbn. rewrite app_nil_r. reflexivity.
  - (* OSome *) intros b IHb c st d o e Hc. cbn [fl_oitems sem_oitems].
    change (run (?x :: ?l) ?p) with (run l (step p x)).
    set (c' := {| met := negb (taken c); else_seen := true; taken := taken c |}).
    assert (Hs : step (mk (c :: st) d o e) LElse = mk (c' :: st) d o e).
    { cbn [step stack mk]. rewrite Hc. reflexivity. }
    exists c'. rewrite Hs, (IHb (c' :: st) d o e), act_cons. cbn [met c'].
    rewrite (andb_comm (negb (taken c)) (act st)). reflexivity.
Qed.

(* The property for a whole well-nested file: exactly the selected lines, in order, no error,
   stack empty at the end; for every nesting depth and every initial macro table. *)
Theorem cond_stack_refines_tree its d0 :
  run (fl_items its) (mk [] d0 [] 0) =
  mk [] (fst (sem_items true d0 its)) (snd (sem_items true d0 its)) 0.
Proof. destruct refinement as [_ [H _]]. apply (H its [] d0 [] 0). Qed.

(* #define/#undef in a skipped branch have no effect *)
Theorem skipped_region_inert :
  (forall it d, sem_item false d it = (d, [])) /\ (forall its d, sem_items false d its = (d, [])) /\
  (forall es tk d, snd (fst (sem_elifs false tk d es)) = d /\ snd (sem_elifs false tk d es) = []) /\
  (forall ob d, sem_oitems false d ob = (d, [])).
Proof.
  apply tree_mind; intros; cbn [sem_item sem_items sem_elifs sem_oitems andb fst snd]; auto.
  - rewrite H. cbn [fst snd]. destruct (H0 (holds c d) d) as [E1 E2]. rewrite E2.
    rewrite H1 in *. cbn. rewrite E1. reflexivity.
  - rewrite H. cbn. rewrite H0. reflexivity.
  - rewrite H. cbn [fst snd]. destruct (H0 (tk || (negb tk && defined n d)) d) as [E1 E2].
    rewrite E1, E2. auto.
Qed.

(* unbalanced input is an error, never ignored *)
Theorem stray_endif_is_error st d o e : st = [] -> errors (step (mk st d o e) LEndif) = S e.
Proof. intros ->. reflexivity. Qed.

Example nested :
  let prog := ICons (IDefine 1) (ICons (IGroup (CDef 1)
                 (ICons (IText 10) (ICons (IGroup (CDef 2) (ICons (IText 20) INil)
                    (ECons 1 (ICons (IText 21) INil) ENil) (OSome (ICons (IText 22) INil))) INil))
                 ENil (OSome (ICons (IDefine 3) (ICons (IText 30) INil)))) (ICons (IGroup (CDef 3) (ICons (IText 40) INil) ENil ONone) INil)) in
  out (run (fl_items prog) (mk [] [] [] 0)) = [10; 21].
Proof. vm_compute. reflexivity. Qed.
Print Assumptions cond_stack_refines_tree.
Print Assumptions skipped_region_inert.
