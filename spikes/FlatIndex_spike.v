(* Spike: model of Variable::calculate_flat_index (interpreter.h:393) and its main theorems. *)
From Coq Require Import List ZArith Lia Bool.
Import ListNotations.
Local Open Scope Z_scope.

(* The C++ loop runs from the last dimension to the first with (flat, mult) accumulators.
   Written here over the reversed lists: dims/idxs given last-dimension-first. *)
Fixpoint flat_rev (dims idxs : list Z) (flat mult : Z) : option Z :=
  match dims, idxs with
  | [], [] => Some flat
  | d :: ds, i :: is_ =>
      if (i <? 0) || (d <=? i) then None
      else flat_rev ds is_ (flat + i * mult) (mult * d)
  | _, _ => None
  end.

Definition flat_index (dims idxs : list Z) : option Z :=
  if Nat.eqb (length dims) (length idxs) then flat_rev (rev dims) (rev idxs) 0 1 else None.

(* Spec: in-range predicate and row-major value (also last-dimension-first) *)
Fixpoint in_range (dims idxs : list Z) : Prop :=
  match dims, idxs with
  | [], [] => True
  | d :: ds, i :: is_ => 0 <= i < d /\ in_range ds is_
  | _, _ => False
  end.

Fixpoint row_major (dims idxs : list Z) : Z :=
  match dims, idxs with
  | d :: ds, i :: is_ => i + d * row_major ds is_
  | _, _ => 0
  end.

Fixpoint size (dims : list Z) : Z := match dims with [] => 1 | d :: ds => d * size ds end.

Lemma flat_rev_spec dims : forall idxs flat mult,
  (in_range dims idxs -> flat_rev dims idxs flat mult = Some (flat + mult * row_major dims idxs)) /\
  (~ in_range dims idxs -> flat_rev dims idxs flat mult = None).
Proof.
  induction dims as [|d ds IH]; intros [|i is_] flat mult; cbn [flat_rev in_range row_major]; split;
    try tauto; intros H; try (f_equal; lia).
  - destruct H as [Hi Hr].
    destruct (Z.ltb_spec i 0), (Z.leb_spec d i); cbn [orb]; try lia.
    rewrite (proj1 (IH is_ _ _) Hr). f_equal. lia.
  - destruct (Z.ltb_spec i 0), (Z.leb_spec d i); cbn [orb]; auto.
    apply (proj2 (IH is_ _ _)). intros Hr. apply H. split; [lia|exact Hr].
Qed.

Lemma in_range_dec dims : forall idxs, in_range dims idxs \/ ~ in_range dims idxs.
Proof.
  induction dims as [|d ds IH]; intros [|i is_]; cbn [in_range]; try tauto.
  destruct (IH is_); destruct (Z_lt_dec i 0); destruct (Z_le_dec d i); try (right; lia); try tauto.
  left; split; [lia|assumption].
Qed.

Theorem flat_some_iff dims idxs k :
  flat_rev dims idxs 0 1 = Some k <-> in_range dims idxs /\ k = row_major dims idxs.
Proof.
  split.
  - intros H. destruct (in_range_dec dims idxs) as [Hin|Hnot].
    + split; [exact Hin|]. rewrite (proj1 (flat_rev_spec dims idxs 0 1) Hin) in H.
      assert (0 + 1 * row_major dims idxs = k) by congruence. lia.
    + rewrite (proj2 (flat_rev_spec dims idxs 0 1) Hnot) in H. discriminate.
  - intros [Hin ->]. rewrite (proj1 (flat_rev_spec dims idxs 0 1) Hin). f_equal; lia.
Qed.

Lemma row_major_bounds dims : forall idxs, in_range dims idxs -> 0 <= row_major dims idxs < size dims.
Proof.
  induction dims as [|d ds IH]; intros [|i is_]; cbn [in_range row_major size]; try tauto; try lia.
  intros [Hi Hr]. specialize (IH _ Hr). nia.
Qed.

Lemma row_major_inj dims : forall a b, in_range dims a -> in_range dims b ->
  row_major dims a = row_major dims b -> a = b.
Proof.
  induction dims as [|d ds IH]; intros [|i a] [|j b]; cbn [in_range row_major]; try tauto.
  intros [Hi Ha] [Hj Hb] E.
  pose proof (row_major_bounds _ _ Ha). pose proof (row_major_bounds _ _ Hb).
  assert (i = j /\ row_major ds a = row_major ds b) as [-> E2].
  { assert (Hd : 0 < d) by lia.
    assert (i mod d = j mod d).
    { rewrite <- (Z.mod_add i (row_major ds a) d) by lia.
      rewrite <- (Z.mod_add j (row_major ds b) d) by lia. f_equal. lia. }
    rewrite !Z.mod_small in H1 by lia. split; [assumption|nia]. }
  f_equal. apply IH; assumption.
Qed.

(* every cell is addressed: surjectivity *)
Lemma row_major_surj dims : (forall d, In d dims -> 0 < d) -> forall k, 0 <= k < size dims ->
  exists idxs, in_range dims idxs /\ row_major dims idxs = k.
Proof.
  induction dims as [|d ds IH]; intros Hpos k Hk; cbn [size] in Hk.
  - exists []. cbn. split; [exact I|lia].
  - assert (Hd : 0 < d) by (apply Hpos; left; reflexivity).
    destruct (IH (fun x Hx => Hpos x (or_intror Hx)) (k / d)) as [is_ [Hr E]].
    { split; [apply Z.div_pos; lia|]. apply Z.div_lt_upper_bound; lia. }
    exists (k mod d :: is_). cbn [in_range row_major]. split.
    + split; [apply Z.mod_pos_bound; lia|exact Hr].
    + rewrite E. rewrite (Z.div_mod k d) at 3 by lia. lia.
Qed.

Theorem flat_injective dims a b k :
  flat_rev dims a 0 1 = Some k -> flat_rev dims b 0 1 = Some k -> a = b.
Proof.
  rewrite !flat_some_iff. intros [Ha ->] [Hb E]. eapply row_major_inj; eauto.
Qed.

Theorem flat_lt_size dims idxs k : flat_rev dims idxs 0 1 = Some k -> 0 <= k < size dims.
Proof. rewrite flat_some_iff. intros [H ->]. apply row_major_bounds; assumption. Qed.

Example ex_2x3 : flat_index [2;3] [1;2] = Some 5 /\ flat_index [2;3] [0;3] = None
               /\ flat_index [2;3] [2;0] = None /\ flat_index [2;3] [1] = None.
Proof. vm_compute. repeat split. Qed.
Print Assumptions flat_injective.
Print Assumptions row_major_surj.
