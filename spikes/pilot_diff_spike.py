import random, subprocess, sys, os, json
RANGES={'tiny':(-128,127),'short':(-32768,32767),'int':(-2**31,2**31-1),'long':(-2**63,2**63-1)}
class Err(Exception): pass
class Undef(Exception): pass
class Brk(Exception): pass
class Cnt(Exception): pass
class Ret(Exception):
    def __init__(s,v): s.v=v
def tdiv(a,b):
    q=abs(a)//abs(b); return q if (a<0)==(b<0) else -q
def chk64(v):
    if not (-2**63<=v<=2**63-1): raise Undef()
    return v
# ---------- generator
class G:
    def __init__(s,seed):
        s.r=random.Random(seed); s.n=0; s.funcs=[]
    def name(s,p='v'):
        s.n+=1; return f'{p}{s.n}'
    def expr(s,vars,d):
        r=s.r
        if d<=0 or r.random()<0.25:
            if vars and r.random()<0.6: return ('var',r.choice(vars))
            return ('num',r.choice([0,1,2,3,5,7,10,100,-1,-3,127,128,255,1000,32767,65536]))
        k=r.random()
        if k<0.55:
            op=r.choice(['+','-','*','/','%','&','|','^','<<','>>','<','<=','>','>=','==','!=','&&','||'])
            a=s.expr(vars,d-1); b=s.expr(vars,d-1)
            if op in('<<','>>'): b=('num',r.choice([0,1,2,3,7]))
            return ('bin',op,a,b)
        if k<0.7: return ('un',r.choice(['-','!','~']),s.expr(vars,d-1))
        if k<0.8: return ('cond',s.expr(vars,d-1),s.expr([],d-1),s.expr([],d-1))
        if k<0.9 and s.funcs:
            f=r.choice(s.funcs); return ('call',f[0],[s.expr(vars,d-1) for _ in f[1]])
        return ('paren',s.expr(vars,d-1))
    def stmts(s,vars,arrs,d,n,inloop,ro=()):
        out=[]; vars=list(vars)
        for _ in range(n):
            r=s.r; k=r.random()
            if k<0.25 or not vars:
                t=r.choice(['int','int','long','short','tiny']); v=s.name(); out.append(('decl',t,v,s.expr(vars,2))); vars.append(v)
            elif k<0.45 and [v for v in vars if v not in ro]: out.append(('assign',r.choice([v for v in vars if v not in ro]),r.choice(['=','+=','-=','*=','/=','%=','&=','|=','^=']),s.expr(vars,2)))
            elif k<0.6: out.append(('print',[s.expr(vars,2) for _ in range(r.randint(1,3))]))
            elif k<0.7 and d>0: out.append(('if',s.expr(vars,2),s.stmts(vars,arrs,d-1,r.randint(1,3),inloop,ro),s.stmts(vars,arrs,d-1,r.randint(0,2),inloop,ro)))
            elif k<0.8 and d>0:
                i=s.name('i'); out.append(('for',i,r.randint(1,4),s.stmts(vars+[i],arrs,d-1,r.randint(1,3),True,tuple(ro)+(i,))))
            elif k<0.85 and inloop: out.append(('ifbc',s.expr(vars,1),r.choice(['break','continue'])))
            elif k<0.92 and arrs:
                a,n_=r.choice(arrs); out.append(('aset',a,n_,s.expr(vars,1),s.expr(vars,2)))
            elif arrs:
                a,n_=r.choice(arrs); out.append(('print',[('aget',a,n_,s.expr(vars,1))]))
            else: out.append(('print',[s.expr(vars,2)]))
        return out
    def prog(s):
        r=s.r; gl=[]
        for _ in range(r.randint(0,2)):
            g=s.name('g'); gl.append((r.choice(['int','long']),g,r.choice([0,1,5,-7,1000])))
        gv=[g[1] for g in gl]
        for _ in range(r.randint(0,2)):
            f=s.name('f'); ps=[s.name('p') for _ in range(r.randint(0,2))]
            body=s.stmts(gv+ps,[],1,r.randint(1,3),False); ret=s.expr(gv+ps,2)
            s.funcs.append((f,ps,body,ret))
        arrs=[(s.name('a'),r.randint(2,4)) for _ in range(r.randint(0,2))]
        main=s.stmts(gv,arrs,2,r.randint(4,9),False)
        return dict(globals=gl,funcs=s.funcs,arrs=arrs,main=main)
# ---------- printer
def pe(e):
    t=e[0]
    if t=='num': return str(e[1]) if e[1]>=0 else f'({e[1]})'
    if t=='var': return e[1]
    if t=='bin':
        if e[1]=='>': return f'({pe(e[3])} < {pe(e[2])})'
        return f'({pe(e[2])} {e[1]} {pe(e[3])})'
    if t=='un': return f'({e[1]}{pe(e[2])})'
    if t=='cond': return f'({pe(e[1])} ? {pe(e[2])} : {pe(e[3])})'
    if t=='call': return f'{e[1]}({", ".join(pe(a) for a in e[2])})'
    if t=='paren':
        x=e[1]
        while x[0]=='paren': x=x[1]
        return pe(x) if x[0]=='var' else f'({pe(x)})'
    if t=='aget': return f'{e[1]}[{idx(e)}]'
def idx(e): return f'(({pe(e[3])} + 0) % {e[2]} + {e[2]}) % {e[2]}'
def ps(st,ind):
    o=[]; sp='    '*ind
    for x in st:
        t=x[0]
        if t=='decl': o.append(f'{sp}{x[1]} {x[2]} = {pe(x[3])};')
        elif t=='assign': o.append(f'{sp}{x[1]} {x[2]} {pe(x[3])};')
        elif t=='print': o.append(f'{sp}println({", ".join(pe(a) for a in x[1])});')
        elif t=='if':
            o.append(f'{sp}if ({pe(x[1])}) {{'); o+=ps(x[2],ind+1)
            if x[3]: o.append(f'{sp}}} else {{'); o+=ps(x[3],ind+1)
            o.append(f'{sp}}}')
        elif t=='for':
            o.append(f'{sp}for (int {x[1]} = 0; {x[1]} < {x[2]}; {x[1]}++) {{'); o+=ps(x[3],ind+1); o.append(f'{sp}}}')
        elif t=='ifbc': o.append(f'{sp}if ({pe(x[1])}) {{ {x[2]}; }}')
        elif t=='aset': o.append(f'{sp}{x[1]}[{idx(("",x[1],x[2],x[3]))}] = {pe(x[4])};')
    return o
def pp(p):
    o=[f'{t} {g} = {v};' for t,g,v in p['globals']]
    for f,pa,body,ret in p['funcs']:
        o.append(f'long {f}({", ".join("long "+q for q in pa)}) {{'); o+=ps(body,1); o.append(f'    return {pe(ret)};'); o.append('}')
    o.append('void main() {')
    for a,n in p['arrs']: o.append(f'    long[{n}] {a};')
    o+=ps(p['main'],1); o.append('}')
    return '\n'.join(o)+'\n'
# ---------- reference evaluator
class Ev:
    def __init__(s,p):
        s.p=p; s.out=[]; s.buf=''; s.g={g:[t,v] for t,g,v in p['globals']}; s.f={f[0]:f for f in p['funcs']}; s.depth=0
    def look(s,env,v):
        if v in env: return env[v]
        return s.g[v]
    def ev(s,e,env):
        t=e[0]
        if t=='num': return e[1]
        if t=='var': return s.look(env,e[1])[1]
        if t=='paren': return s.ev(e[1],env)
        if t=='un':
            a=s.ev(e[2],env)
            return chk64(-a) if e[1]=='-' else (0 if a else 1) if e[1]=='!' else ~a
        if t=='cond': return s.ev(e[2],env) if s.ev(e[1],env) else s.ev(e[3],env)
        if t=='call':
            f=s.f[e[1]]; args=[s.ev(a,env) for a in e[2]]
            s.depth+=1
            if s.depth>50: raise Undef()
            loc={q:['long',v] for q,v in zip(f[1],args)}
            s.block(f[2],loc); r=chk64(s.ev(f[3],loc)); s.depth-=1; return r
        if t=='aget':
            i=s.ev(e[3],env); n=e[2]; i=((tdiv(i,1)-tdiv(i,n)*n)+n); i=i-tdiv(i,n)*n
            return env['@'+e[1]][i]
        if t=='bin':
            op=e[1]
            if op=='&&':
                a=s.ev(e[2],env); b=s.ev(e[3],env); return 1 if (a and b) else 0
            if op=='||':
                a=s.ev(e[2],env); b=s.ev(e[3],env); return 1 if (a or b) else 0
            a=s.ev(e[2],env); b=s.ev(e[3],env)
            if op=='+': return chk64(a+b)
            if op=='-': return chk64(a-b)
            if op=='*': return chk64(a*b)
            if op=='/':
                if b==0: raise Err()
                return chk64(tdiv(a,b))
            if op=='%':
                if b==0: raise Err()
                return a-tdiv(a,b)*b
            if op=='&': return a&b
            if op=='|': return a|b
            if op=='^': return a^b
            if op=='<<': return chk64(a<<b)
            if op=='>>': return a>>b
            return 1 if {'<':a<b,'<=':a<=b,'>':a>b,'>=':a>=b,'==':a==b,'!=':a!=b}[op] else 0
    def store(s,cell,v):
        lo,hi=RANGES[cell[0]]
        if not lo<=v<=hi: raise Err()
        cell[1]=v
    def block(s,st,env):
        for x in st:
            t=x[0]
            if t=='decl':
                v=s.ev(x[3],env); c=[x[1],0]; s.store(c,v); env[x[2]]=c
            elif t=='assign':
                c=s.look(env,x[1]); v=s.ev(x[3],env); op=x[2]
                if op!='=': v=s.ev(('bin',op[:-1],('num',c[1]),('num',v)),env)
                s.store(c,v)
            elif t=='print':
                for j,a in enumerate(x[1]):
                    if j: s.buf+=' '
                    v_=str(s.ev(a,env)); s.buf+=v_
                s.buf+='\n'
            elif t=='if': s.block(x[2] if s.ev(x[1],env) else x[3],env)
            elif t=='for':
                env[x[1]]=['int',0]
                try:
                    while env[x[1]][1]<x[2]:
                        try: s.block(x[3],env)
                        except Cnt: pass
                        s.store(env[x[1]],env[x[1]][1]+1)
                except Brk: pass
                del env[x[1]]
            elif t=='ifbc':
                if s.ev(x[1],env): raise (Brk if x[2]=='break' else Cnt)()
            elif t=='aset':
                i=s.ev(x[3],env); n=x[2]; i=(i-tdiv(i,n)*n)+n; i=i-tdiv(i,n)*n
                v=s.ev(x[4],env); s.store(['long',0],v); env['@'+x[1]][i]=v
    def run(s):
        env={'@'+a:[0]*n for a,n in s.p['arrs']}
        try: s.block(s.p['main'],env); return s.buf.splitlines(),0
        except Err: return s.buf.splitlines(),1
if __name__=='__main__':
    n=int(sys.argv[1]); base=int(sys.argv[2]) if len(sys.argv)>2 else 0
    stats=dict(ok=0,undef=0,diff=0,err=0); diffs=[]
    for k in range(base,base+n):
        g=G(k); p=g.prog(); src=pp(p)
        try: out,st=Ev(p).run()
        except Undef: stats['undef']+=1; continue
        except RecursionError: stats['undef']+=1; continue
        fn=f'/tmp/spike/gen/p{k}.cb'; open(fn,'w').write(src)
        try:
            r=subprocess.run(['/repo/main',fn],capture_output=True,text=True,timeout=10)
            got=r.stdout.splitlines(); gst=r.returncode
        except subprocess.TimeoutExpired: got=['<timeout>']; gst=124
        if got==out and (gst!=0)==(st!=0):
            stats['ok']+=1; stats['err']+= st!=0; os.remove(fn)
        else:
            stats['diff']+=1; diffs.append((k,out[:6],st,got[:6],gst,(r.stderr or '')[:200]))
    print(stats)
    for d in diffs[:12]: print(d)
