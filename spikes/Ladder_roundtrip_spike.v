From Coq Require Import List Arith ZArith Lia Bool.
Import ListNotations.

Section Ladder.
Variable L : nat.                 (* number of binary levels: 1..L *)
Variable lvl : nat -> nat.        (* level of operator o *)
Hypothesis lvl_range : forall o, 1 <= lvl o <= L.

Inductive tok := TNum (n : Z) | TOp (o : nat) | TLP | TRP.
Inductive expr := Num (n : Z) | Bin (o : nat) (a b : expr).

Definition lev (e : expr) : nat := match e with Num _ => S L | Bin o _ _ => lvl o end.

Fixpoint print_at (l : nat) (e : expr) : list tok :=
  match e with
  | Num n => [TNum n]
  | Bin o a b =>
      let k := lvl o in
      let s := print_at k a ++ TOp o :: print_at (S k) b in
      if l <=? k then s else TLP :: s ++ [TRP]
  end.

(* parser: fuel-based; parse_at l = operand at level l+1 then loop at l; level > L is primary *)
Fixpoint parse_at (fuel : nat) (l : nat) (ts : list tok) : option (expr * list tok) :=
  match fuel with
  | O => None
  | S f =>
    if L <? l then
      match ts with
      | TNum n :: r => Some (Num n, r)
      | TLP :: r =>
          match parse_at f 1 r with
          | Some (e, TRP :: r') => Some (e, r')
          | _ => None
          end
      | _ => None
      end
    else
      match parse_at f (S l) ts with
      | Some (a, r) => loop f l a r
      | None => None
      end
  end
with loop (fuel : nat) (l : nat) (acc : expr) (ts : list tok) : option (expr * list tok) :=
  match fuel with
  | O => None
  | S f =>
    match ts with
    | TOp o :: r =>
        if lvl o =? l then
          match parse_at f (S l) r with
          | Some (b, r') => loop f l (Bin o acc b) r'
          | None => None
          end
        else Some (acc, ts)
    | _ => Some (acc, ts)
    end
  end.

Lemma mono : forall f,
  (forall l ts r, parse_at f l ts = Some r -> forall f', f <= f' -> parse_at f' l ts = Some r) /\
  (forall l acc ts r, loop f l acc ts = Some r -> forall f', f <= f' -> loop f' l acc ts = Some r).
Proof.
  induction f as [|f [IHp IHl]]; split.
  - intros l ts r H; cbn in H; discriminate.
  - intros l acc ts r H; cbn in H; discriminate.
  - intros l ts r H f' Hle. destruct f' as [|f']; [lia|]. cbn [parse_at] in *.
    destruct (L <? l).
    + destruct ts as [|[n|o| |] ts']; try discriminate; auto.
      destruct (parse_at f 1 ts') as [[e [|[n|o| |] r']]|] eqn:E; try discriminate.
      rewrite (IHp _ _ _ E f') by lia. exact H.
    + destruct (parse_at f (S l) ts) as [[a r']|] eqn:E; try discriminate.
      rewrite (IHp _ _ _ E f') by lia. apply (IHl _ _ _ _ H); lia.
  - intros l acc ts r H f' Hle. destruct f' as [|f']; [lia|]. cbn [loop] in *.
    destruct ts as [|[n|o| |] ts']; auto.
    destruct (lvl o =? l); auto.
    destruct (parse_at f (S l) ts') as [[b r']|] eqn:E; try discriminate.
    rewrite (IHp _ _ _ E f') by lia. apply (IHl _ _ _ _ H); lia.
Qed.

Definition head_lt (k : nat) (ts : list tok) : Prop :=
  match ts with TOp o :: _ => lvl o < k | _ => True end.

(* P e: parsing at any level l gives e back when the follow token is not an operator of level >= l *)
Definition P (e : expr) := forall l rest, 1 <= l -> head_lt l rest ->
  exists f, parse_at f l (print_at l e ++ rest) = Some (e, rest).
(* S' e: operand-then-loop at level k on e printed at level k equals continuing the loop from e *)
Definition S' (e : expr) := forall k R res, 1 <= k <= L -> head_lt (S k) R ->
  (exists f, loop f k e R = Some res) ->
  exists f, match parse_at f (S k) (print_at k e ++ R) with
            | Some (a, r) => loop f k a r | None => None end = Some res.

Lemma parse_mono f f' l ts r : parse_at f l ts = Some r -> f <= f' -> parse_at f' l ts = Some r.
Proof. intros; eapply (proj1 (mono f)); eauto. Qed.
Lemma loop_mono f f' l acc ts r : loop f l acc ts = Some r -> f <= f' -> loop f' l acc ts = Some r.
Proof. intros; eapply (proj2 (mono f)); eauto. Qed.

Lemma loop_stop k e rest : head_lt k rest -> loop 1 k e rest = Some (e, rest).
Proof.
  intros H. cbn. destruct rest as [|[n|o| |] r]; auto.
  cbn in H. destruct (Nat.eqb_spec (lvl o) k); [lia|reflexivity].
Qed.

(* going down the ladder from level k to level l when the follow token stops every loop in between *)
Lemma descend e rest X : forall d l k, k = d + l -> 1 <= l -> k <= S L -> head_lt l rest ->
  (exists f, parse_at f k X = Some (e, rest)) -> exists f, parse_at f l X = Some (e, rest).
Proof.
  induction d as [|d IH]; intros l k -> Hl Hk Hh [f Hf].
  - exists f; exact Hf.
  - destruct (IH (S l) (S d + l)) as [f1 H1]; try lia.
    + destruct rest as [|[n|o| |] r]; cbn in *; auto; lia.
    + exists f; exact Hf.
    + remember (S f1) as g eqn:Hg. exists (S g). cbn [parse_at].
      destruct (Nat.ltb_spec L l); [lia|].
      rewrite (parse_mono _ g _ _ _ H1) by lia.
      apply (loop_mono 1); [apply loop_stop; exact Hh | lia].
Qed.

Lemma print_other_level k e : lev e <> k -> print_at k e = print_at (S k) e.
Proof.
  destruct e as [n|o a b]; cbn [print_at lev]; auto. intros H.
  destruct (Nat.leb_spec k (lvl o)), (Nat.leb_spec (S k) (lvl o)); auto; lia.
Qed.

Theorem roundtrip e : P e /\ S' e.
Proof.
  induction e as [n | o a [IHPa IHSa] b [IHPb IHSb]].
  - assert (HP : P (Num n)).
    { intros l rest Hl Hh. cbn [print_at app].
      destruct (Nat.ltb_spec L l) as [Hlt|Hge].
      - exists 1. cbn [parse_at]. destruct (Nat.ltb_spec L l); [reflexivity|lia].
      - apply (descend (Num n) rest _ (S L - l) l (S L)); try lia; auto.
        exists 1. cbn [parse_at]. destruct (Nat.ltb_spec L (S L)); [reflexivity|lia]. }
    split; [exact HP|].
    intros k R res Hk Hh [f Hf]. destruct (HP (S k) R) as [f1 H1]; [lia|exact Hh|].
    exists (f + f1). cbn [print_at] in *. rewrite (parse_mono _ _ _ _ _ H1) by lia.
    apply (loop_mono f); [exact Hf|lia].
  - set (k := lvl o). set (e := Bin o a b).
    pose proof (lvl_range o) as Hko. fold k in Hko.
    (* S' at the operator's own level *)
    assert (Hpk : print_at k e = print_at k a ++ TOp o :: print_at (S k) b).
    { unfold e; cbn [print_at]; fold k; rewrite Nat.leb_refl; reflexivity. }
    assert (HSeq : forall R res, head_lt (S k) R -> (exists f, loop f k e R = Some res) ->
       exists f, match parse_at f (S k) (print_at k e ++ R) with
                 | Some (a0, r) => loop f k a0 r | None => None end = Some res).
    { intros R res Hh [f Hf]. rewrite Hpk. rewrite <- app_assoc. cbn [app].
      apply IHSa; [lia| cbn; lia |].
      destruct (IHPb (S k) R) as [f1 H1]; [lia|exact Hh|].
      exists (S (f + f1)). cbn [loop]. fold k. rewrite Nat.eqb_refl.
      rewrite (parse_mono _ _ _ _ _ H1) by lia.
      apply (loop_mono f); [exact Hf|lia]. }
    (* P at levels not above k *)
    assert (HPle : forall l rest, 1 <= l -> l <= k -> head_lt l rest ->
       exists f, parse_at f l (print_at l e ++ rest) = Some (e, rest)).
    { intros l rest Hl Hlk Hh.
      assert (Hpr : print_at l e = print_at k e).
      { rewrite Hpk. unfold e. cbn [print_at]. fold k.
        destruct (Nat.leb_spec l k); [reflexivity|lia]. }
      rewrite Hpr.
      apply (descend e rest _ (k - l) l k); try lia; auto.
      destruct (HSeq rest (e, rest)) as [f Hf].
      + destruct rest as [|[n|o'| |] r]; cbn in *; auto; lia.
      + exists 1. apply loop_stop. destruct rest as [|[n|o'| |] r]; cbn in *; auto; lia.
      + exists (S f). cbn [parse_at]. destruct (Nat.ltb_spec L k); [lia|]. exact Hf. }
    assert (HP : P e).
    { intros l rest Hl Hh. destruct (Nat.leb_spec l k) as [Hle|Hgt].
      - apply HPle; auto.
      - (* parenthesised *)
        assert (Hpr : print_at l e = TLP :: print_at 1 e ++ [TRP]).
        { assert (Hp1 : print_at 1 e = print_at k a ++ TOp o :: print_at (S k) b).
          { unfold e. cbn [print_at]. fold k. destruct (Nat.leb_spec 1 k); [reflexivity|lia]. }
          rewrite Hp1. unfold e. cbn [print_at]. fold k.
          destruct (Nat.leb_spec l k); [lia|reflexivity]. }
        rewrite Hpr. cbn [app]. rewrite <- app_assoc. cbn [app].
        destruct (HPle 1 (TRP :: rest)) as [f1 H1]; [lia|lia|exact I|].
        assert (Hprim : forall j, L < j -> parse_at (S f1) j (TLP :: print_at 1 e ++ TRP :: rest) = Some (e, rest)).
        { intros j Hj. cbn [parse_at]. destruct (Nat.ltb_spec L j); [|lia]. rewrite H1. reflexivity. }
        destruct (Nat.ltb_spec L l) as [Hlt|Hge].
        + exists (S f1). apply Hprim; exact Hlt.
        + apply (descend e rest _ (S L - l) l (S L)); try lia; auto.
          exists (S f1). apply Hprim; lia. }
    split; [exact HP|].
    intros k' R res Hk' Hh Hl. destruct (Nat.eq_dec k k') as [<-|Hne].
    + apply HSeq; auto.
    + rewrite (print_other_level k' e) by (cbn; fold k; lia).
      destruct (HP (S k') R) as [f1 H1]; [lia|exact Hh|]. destruct Hl as [f Hf].
      exists (f + f1). rewrite (parse_mono _ _ _ _ _ H1) by lia.
      apply (loop_mono f); [exact Hf|lia].
Qed.

Corollary parse_print e : exists f, parse_at f 1 (print_at 1 e) = Some (e, []).
Proof.
  destruct (roundtrip e) as [HP _]. destruct (HP 1 []) as [f Hf]; [lia|exact I|].
  exists f. rewrite app_nil_r in Hf. exact Hf.
Qed.
End Ladder.
Check parse_print.
Print Assumptions parse_print.

