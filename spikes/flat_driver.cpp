#include "src/backend/interpreter/core/interpreter.h"
#include <iostream>
int main() {
    Variable v;
    v.array_type_info.dimensions.push_back(ArrayDimension(2, false));
    v.array_type_info.dimensions.push_back(ArrayDimension(3, false));
    for (int i = -1; i <= 2; i++) for (int j = -1; j <= 3; j++) {
        try { std::cout << i << "," << j << " -> " << v.calculate_flat_index({i, j}) << "\n"; }
        catch (const std::exception& e) { std::cout << i << "," << j << " -> ERR\n"; }
    }
}
