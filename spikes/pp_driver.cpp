#include "src/frontend/preprocessor/preprocessor.h"
#include <iostream>
#include <sstream>
int main(int argc, char** argv) {
    PreprocessorNS::Preprocessor pp;
    for (int i = 1; i < argc; i++) { std::string d = argv[i]; auto e = d.find('='); if (e == std::string::npos) pp.define(d, "1"); else pp.define(d.substr(0, e), d.substr(e + 1)); }
    std::stringstream ss; ss << std::cin.rdbuf();
    std::string out = pp.process(ss.str(), "in.cb");
    std::cout << out << "---ERRORS " << pp.getErrors().size() << "\n";
    for (auto& e : pp.getErrors()) std::cout << e << "\n";
}
