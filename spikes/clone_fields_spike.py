import re
ast = open('/repo/src/common/ast.h').read()
m = re.search(r'struct ASTNode \{', ast); i = m.end(); depth = 1
while depth:
    c = ast[i]
    depth += (c == '{') - (c == '}'); i += 1
body = ast[m.end():i]
single = re.findall(r'std::unique_ptr<ASTNode>\s+(\w+)\s*;', body)
vec = re.findall(r'std::vector<std::unique_ptr<ASTNode>>\s*(\w+)\s*;', body, re.S)
gi = open('/repo/src/backend/interpreter/evaluator/functions/generic_instantiation.cpp').read()
m = re.search(r'std::unique_ptr<ASTNode> clone_ast_node\(const ASTNode \*node\) \{', gi); i = m.end(); depth = 1
while depth:
    c = gi[i]; depth += (c == '{') - (c == '}'); i += 1
cb = gi[m.end():i]
cl_single = re.findall(r'cloned->(\w+)\s*=\s*clone_ast_node\(node->\1\.get\(\)\)', cb)
cl_vec = re.findall(r'for \(const auto &\w+ : node->(\w+)\)', cb)
print('ast single', single); print('ast vec', vec); print('cloned single', cl_single); print('cloned vec', cl_vec)
print('MISSING single', [f for f in single if f not in cl_single]); print('MISSING vec', [f for f in vec if f not in cl_vec])
