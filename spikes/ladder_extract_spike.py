import re, sys, json
src = open('/repo/src/frontend/recursive_parser/parsers/expression_parser.cpp').read()
# split into function bodies
funcs = {}
for m in re.finditer(r'ASTNode \*ExpressionParser::(parse\w+)\(\)\s*\{', src):
    name = m.group(1); i = m.end(); depth = 1
    while depth:
        c = src[i]
        if c == '{': depth += 1
        elif c == '}': depth -= 1
        i += 1
    funcs[name] = src[m.end():i]
levels = []
name = 'parseLogicalOr'
while True:
    body = funcs[name]
    m = re.search(r'ASTNode \*left = (parse\w+)\(\);', body)
    if not m: break
    callee = m.group(1)
    loop = re.search(r'while \((.*?)\)\s*\{', body, re.S)
    toks = re.findall(r'TokenType::(TOK_\w+)', loop.group(1)) if loop else []
    rhs = re.search(r'ASTNode \*right = (parse\w+)\(\);', body)
    levels.append(dict(fn=name, operand=callee, rhs=rhs.group(1) if rhs else None, tokens=toks, assoc='left' if loop and rhs and rhs.group(1)==callee else '?'))
    name = callee
    if name == 'parseUnary': break
print(json.dumps(levels, indent=1))
